"""C08 — a query's answer does not depend on what else was grounded before it.

Theorems (C08/Props.v): on the semantics, the value of a query depends only on the relevant sub-program
(dependency cone); adding further roots never changes it.  Tie: random histories of engine.ground /
ground_all / engine.query sharing one target formula and/or one prepared ClauseDB; afterwards each query is
evaluated from the shared formula and compared with a fresh single-query grounding (same evidence) and the oracle."""
import os
import sys

sys.path.insert(0, os.path.join(os.path.dirname(os.path.dirname(os.path.dirname(os.path.abspath(__file__)))), "gen"))
import pl
import gen_program as gp
import sem_oracle as so
import c01_common as cc

META = {
    "id": "C08",
    "level": "proof",
    "technique": "Coq: relevance theorems for the distribution semantics; differential run of grounding histories "
                 "(shared target formula / shared ClauseDB) against fresh single-query groundings and the extracted oracle",
    "design_ref": "DESIGN.md §5 C08",
    "text": "History independence is proved for the semantics (relevant sub-program); table reuse in the engine "
            "(target._cache) is tied by correspondence."
            " C08_relevant is proved in full: the well-founded model is local on every dependency-closed cone, hence prob of a query equals prob in the sub-program reachable from query and evidence atoms; grounding further roots first cannot change it.",
    "note": "Trusted: Coq kernel, extraction + OCaml driver, generator/encoder, history driver.",
}

WITNESSES = [
    "0.3::e(a,a). 0.4::e(a,b). 0.5::e(b,a). loop :- e(X,X). link :- e(X,Y). both :- e(X,X), e(Y,Z). query(loop). query(link). query(both).",
    "0.3::e(a,a). 0.4::e(a,b). 0.5::e(b,a). link :- e(X,Y). loop :- e(X,X). half(X) :- e(a,X). query(e(X,X)). query(e(X,Y)). query(half(X)). query(link).",
    "0.3::d0. d1 :- d0. 0.1::a; 0.2::d1 :- d1, \\+d0, d0. query(a). query(d1).",
    "0.3::d0. d1 :- d0. 0.1::a; 0.2::d1 :- d1, \\+d0, d0. query(d1). query(a).",
    "n(a). n(b). e(a,b). e(b,a). 0.5::pe(X,Y) :- e(X,Y). path(X,Y) :- pe(X,Y). path(X,Y) :- pe(X,Z), path(Z,Y). "
    "query(path(a,X)). query(path(b,a)). query(pe(a,b)). evidence(path(b,b),true).",
]


def split(prog):
    clauses = prog.with_stmts(prog.clauses())
    queries = [gp.atom_text(q) for q in prog.queries()]
    evidence = [(gp.atom_text(a), v) for a, v in prog.evidence()]
    return clauses.text(), queries, evidence


def make_history(rng, prog):
    """ops over one shared target: every query and every evidence atom is grounded exactly once with its label;
    in between: distractor groundings (label None), engine.query calls, and ground_all on a sub-list."""
    _, queries, evidence = split(prog)
    items = [("q", q) for q in queries] + [("e", e) for e in evidence]
    rng.shuffle(items)
    ops = []
    gcs, pt = gp.possibly_true(prog)
    distract = sorted("%s(%s)" % (a[0], ",".join(a[1])) if a[1] else a[0] for a in (pt or []))
    # non-ground call patterns of the binary predicates: specific (repeated variable / partially ground) and general
    for (name, ar) in sorted(set((a[0], len(a[1])) for s in prog.clauses() for a in gp.stmt_heads(s))):
        if ar == 2:
            c0 = (prog.constants() or ["a"])[0]
            distract += ["%s(X,X)" % name, "%s(X,Y)" % name, "%s(%s,Y)" % (name, c0)]
    i = 0
    while i < len(items):
        r = rng.random()
        if r < 0.2 and distract:
            ops.append(("distract", rng.choice(distract)))
            continue
        if r < 0.3 and distract:
            ops.append(("query", rng.choice(distract)))
            continue
        if r < 0.45 and len(items) - i >= 2:
            k = rng.randint(2, len(items) - i)
            chunk = items[i:i + k]
            ops.append(("ground_all", [x[1] for x in chunk if x[0] == "q"], [x[1] for x in chunk if x[0] == "e"]))
            i += k
            continue
        kind, x = items[i]
        ops.append(("ground_q", x) if kind == "q" else ("ground_e", x[0], x[1]))
        i += 1
    return ops


def run_history(args):
    """module level (fork pool).  Returns (shared outcome, {query: fresh outcome}, db-reuse outcome)."""
    text, queries, evidence, ops = args

    def shared():
        from problog.program import PrologString
        from problog.logic import Term
        from problog.engine import DefaultEngine
        from problog.formula import LogicFormula
        from problog import get_evaluatable
        eng = DefaultEngine()
        db = eng.prepare(PrologString(text))
        lf = LogicFormula()
        T = Term.from_string
        for op in ops:
            if op[0] == "ground_q":
                eng.ground(db, T(op[1]), target=lf, label=lf.LABEL_QUERY)
            elif op[0] == "ground_e":
                eng.ground(db, T(op[1]), target=lf, label=lf.LABEL_EVIDENCE_POS if op[2] else lf.LABEL_EVIDENCE_NEG, is_root=True)
            elif op[0] == "distract":
                eng.ground(db, T(op[1]), target=lf, label=None)
            elif op[0] == "query":
                eng.query(db, T(op[1]))
            elif op[0] == "ground_all":
                eng.ground_all(db, target=lf, queries=[T(q) for q in op[1]],
                               evidence=[(T(a), Term("true" if v else "false")) for a, v in op[2]])
        res = get_evaluatable().create_from(lf).evaluate()
        return {str(k): v for k, v in res.items()}

    def fresh_for(q):
        src = text + "query(%s).\n" % q + "".join("evidence(%s,%s).\n" % (a, "true" if v else "false") for a, v in evidence)
        return cc.evaluate(src)

    def db_reuse():
        """one prepared ClauseDB, successive ground_all calls with fresh targets, in history order"""
        from problog.program import PrologString
        from problog.logic import Term
        from problog.engine import DefaultEngine
        from problog import get_evaluatable
        eng = DefaultEngine()
        db = eng.prepare(PrologString(text))
        T = Term.from_string
        out = {}
        order = [op[1] for op in ops if op[0] == "ground_q"] + [q for op in ops if op[0] == "ground_all" for q in op[1]]
        for q in order:
            lf = eng.ground_all(db, queries=[T(q)], evidence=[(T(a), Term("true" if v else "false")) for a, v in evidence])
            for k, v in get_evaluatable().create_from(lf).evaluate().items():
                out[str(k)] = v
        return out
    return (cc.evaluate(text, fn=shared), {q: fresh_for(q) for q in queries}, cc.evaluate(text, fn=db_reuse))


def merge_fresh(fresh):
    """union of the fresh single-query outcomes; an error in any of them is the outcome"""
    res = {}
    for q, o in fresh.items():
        if o[0] == "err":
            return o
        res.update(o[1])
    return ("ok", res)


def run(ctx):
    ctx.cov["rule"] = ("generated C01-fragment programs with >= 2 goals (+ witnesses, corpus/C08), each with h random histories over "
                       "one shared LogicFormula (ground per query/evidence with labels, distractor groundings, engine.query, partial "
                       "ground_all) and over one shared ClauseDB; non-trivial = history with >= 3 ops on a program with a rule body; "
                       "distinct = (program, history)")
    ctx.assumptions += ["the engine's table reuse is tied to the semantics by differential testing only"]
    cc.IMPL_CPU_TIMEOUT = ctx.n(10, 20)   # CPU seconds per evaluation (a non-terminating grounding costs exactly this)
    ctx.prove("C08/Props.v")
    try:
        so.build(ctx)
    except Exception as e:
        ctx.broken.append("oracle:extraction/build failed")
        ctx.notes.append(str(e)[-2000:])
        return
    if ctx.replay:
        base = [gp.Prog.from_json(ctx.replay["replay"]["program"])]
    else:
        base = [gp.parse_simple(w) for w in WITNESSES] + cc.load_corpus("C08")
        want = ctx.n(45, 2000)
        while len(base) < want:
            p = gp.gen_program(ctx.rng)
            if len(p.queries()) + len(p.evidence()) >= 2:
                base.append(p)
    jobs, meta = [], []
    for p in base:
        text, queries, evidence = split(p)
        for _ in range(ctx.n(1, 1) if not ctx.replay else 1):
            ops = ctx.replay["replay"]["ops"] if ctx.replay else make_history(ctx.rng, p)
            jobs.append((text, queries, evidence, ops))
            meta.append((p, ops))
    ctx.log("oracle on %d programs" % len(base))
    ref = so.oracle_eval(ctx, base, "fast")
    ctx.log("running %d histories" % len(jobs))
    outs = pl.pmap(run_history, jobs)
    state = {}
    for (p, ops), r, (shared, fresh, reuse) in zip(meta, ref, outs):
        if r[0] == "err" and r[1] != "InconsistentEvidence":
            ctx.broken.append("oracle:%s on %s" % (r[1], p.text().replace("\n", " ")[:200]))
            continue
        ctx.case((p.key(), repr(ops)), len(ops) >= 3 and any(s[0] in ("rule", "ad") and s[2] for s in p.stmts),
                 sample={"program": p.text(), "ops": ops, "shared": str(shared)[:200]})
        for op in ops:
            ctx.count("op:" + op[0])
        fr = merge_fresh(fresh)
        for name, out in (("shared target formula", shared), ("shared ClauseDB", reuse)):
            if pl.same_result(out, fr):
                ctx.count("%s: same as fresh" % name)
                continue
            ctx.count("%s: differs from fresh" % name)
            wrong = out if cc.kind_of(out, r) is not None else fr
            klass = cc.classify(p, wrong, r)
            ctx.count("violation-class:%s" % klass)
            ctx.violation("%s gives %s but fresh single-query groundings give %s (semantics %s); history %s on program: %s"
                          % (name, out, fr, cc.ref_json(r), ops, p.text().replace("\n", " ")),
                          {"program": p.to_json(), "ops": ops, "shared": out, "fresh": fr, "semantics": cc.ref_json(r), "via": name},
                          klass=klass)
        if cc.kind_of(fr, r) is not None:
            ctx.count("fresh grounding differs from the semantics (C01)")
