"""C05 — all exact compilation backends and semirings agree.

Coq (coq/theories/C05, on top of C10): evaluation commutes with semiring homomorphisms (log-probability is
the instance h = exp over the reals), extensionally equal user semirings give equal values, NSP evaluation
equals plain evaluation on smooth circuits and hence the CNF's weighted model count on every circuit the
verified C10 checker accepts.
Tie: for generated programs every name in problog.get_evaluatables() (+ the default choice) x
{Probability, LogProbability (default), user-defined copy of Probability, the same with is_nsp, Symbolic}
is run; all numbers must agree (1e-9) with a Python brute-force evaluation of the distribution semantics on the
ground program (judge) and with the Coq model's exact WMC of the ground formula (tie).
Symbolic semiring (ModelSym.v / ProofsSymbolic.v): the C12 translation of class SemiringSymbolic is regenerated
(C05_symbolic_is_source is proved against it); per compiled d-DNNF the string SimpleDDNNFEvaluator + SemiringSymbolic
computes for the root must equal, character for character, Coq's `print (c_eval_l SymOps w C)`; every symbolic result
string is cut into tokens by `lex_symbolic` and Coq checks that the tokens spell the string and that its reader
`readQ` returns exactly the rational Python's own parser (ast) assigns to the string."""
import os
import re
import sys
from fractions import Fraction
from itertools import product

import vf
import pl

sys.path.insert(0, os.path.join(vf.VERIF, "gen"))
sys.path.insert(0, os.path.join(vf.VERIF, "harness"))
import c10_gen  # noqa: E402
from props import C10  # noqa: E402

META = {
    "id": "C05",
    "level": "proof",
    "technique": "Coq theorems on semiring-generic circuit evaluation (homomorphisms, custom semirings, NSP on smooth and on "
                 "non-smooth decomposable+deterministic circuits, WMC of checked circuits, symbolic expressions read back by a "
                 "verified token reader; SemiringSymbolic tied to the C12 translation of the source) + differential run of every available backend x semiring against a brute-force "
                 "possible-world judge and the Coq model's exact WMC",
    "design_ref": "DESIGN.md §5 C05",
    "text": "The theorems are unbounded and semiring-generic; the tie is sampled. SDD/SDDX/FSDD/BDD/FBDD need PySDD/dd, "
            "which are not installed: they raise InstallError and are recorded as unavailable, nothing is claimed about them "
            "beyond the backend-independent theorems."
            " Further theorems: NSP evaluation of any decomposable+deterministic circuit equals the WMC over all weighted variables (C05_nsp_general); the symbolic semiring's result string denotes the probability-semiring value (AST/token model, total reader, unambiguous token grammar, sym_* translated from the source compute the printed strings).",
    "note": "Trusted: Coq kernel + stdlib real-number axioms (log-probability theorem only), extraction + driver shared with C10, "
            "Python brute-force judge in this file.",
}

TOL = 1e-9
EXACT_BACKENDS_SKIP = {"kbest": "anytime bounds, not an exact WMC backend (C23)"}


# ------------------------------------------------------------------ semirings handed to evaluate(semiring=...)
def make_semirings():
    from problog.evaluator import Semiring, SemiringProbability, SemiringLogProbability, SemiringSymbolic

    class CustomProb(Semiring):
        """A user-written copy of the probability semiring (nothing inherited from SemiringProbability)."""
        def one(self): return 1.0
        def zero(self): return 0.0
        def is_one(self, v): return 1.0 - 1e-12 < v < 1.0 + 1e-12
        def is_zero(self, v): return -1e-12 < v < 1e-12
        def plus(self, a, b): return a + b
        def times(self, a, b): return a * b
        def negate(self, a): return 1.0 - a
        def normalize(self, a, z): return a / z
        def value(self, a): return float(a)
        def is_dsp(self): return True
        def in_domain(self, a): return -1e-9 <= a <= 1.0 + 1e-9

    class CustomProbNSP(CustomProb):
        def is_nsp(self): return True

    return [("prob", SemiringProbability), ("logprob(default)", None), ("logprob", SemiringLogProbability),
            ("custom", CustomProb), ("custom_nsp", CustomProbNSP), ("symbolic", SemiringSymbolic)], CustomProb


SAFE = re.compile(r"^[0-9eE.+\-*/() ]+$")


def eval_expr(s):
    s = str(s)
    if not SAFE.match(s):
        raise ValueError("unexpected characters in symbolic result %r" % s)
    return float(eval(s, {"__builtins__": {}}, {}))


# ------------------------------------------------------------------ judge: possible worlds of the ground program
def brute_force(dag):
    """P(q | e) for every query of an acyclic ground program, by enumerating total choices.
    Returns ("ok", {name: Fraction}) or ("err", "InconsistentEvidence")."""
    from problog.constraint import ConstraintAD
    nodes = {i: (t, n) for i, n, t in dag}
    atoms = [i for i, (t, n) in nodes.items() if t == "atom"]
    weights = dag.get_weights()
    ads = [c for c in dag.constraints() if isinstance(c, ConstraintAD) and len(c.nodes) > 1]
    in_ad = set()
    groups = []
    for c in ads:
        members = sorted(c.nodes)
        tot = Fraction(0)
        opts = []
        for m in members:
            p = Fraction(str(weights[m]))
            tot += p
            opts.append((m, p))
        opts.append((c.extra_node, 1 - tot))
        for m, _ in opts:
            in_ad.add(m)
        groups.append(opts)
    free = []
    for a in atoms:
        if a in in_ad:
            continue
        wt = weights.get(a, True)
        if wt is True:
            free.append((a, None))          # neutral: both values weight 1 (cannot happen for ground facts)
        else:
            free.append((a, Fraction(str(wt))))
    if len(free) + len(groups) > 16:
        return None
    memo = {}

    def val(world, k):
        if k == 0:
            return True
        if k is None:
            return False
        if k < 0:
            return not val(world, -k)
        key = k
        if key in memo:
            return memo[key]
        t, n = nodes[k]
        if t == "atom":
            r = world[k]
        elif t == "conj":
            r = all(val(world, c) for c in n.children)
        else:
            r = any(val(world, c) for c in n.children)
        memo[key] = r
        return r

    queries = [(str(nm), k) for nm, k in dag.queries()]
    evidence = [(k, v) for nm, k, v in dag.evidence_all() if v != 0]
    z = Fraction(0)
    acc = {nm: Fraction(0) for nm, _ in queries}
    free_opts = [[(a, True, (p if p is not None else Fraction(1))), (a, False, ((1 - p) if p is not None else Fraction(1)))] for a, p in free]
    group_opts = [[(m, p) for m, p in g] for g in groups]
    for fc in product(*free_opts):
        w0 = Fraction(1)
        world0 = {}
        for a, b, p in fc:
            world0[a] = b
            w0 *= p
        if w0 == 0:
            continue
        for gc in product(*group_opts):
            w = w0
            world = dict(world0)
            for g, (m, p) in zip(groups, gc):
                for mm, _ in g:
                    world[mm] = (mm == m)
                w *= p
            if w == 0:
                continue
            memo.clear()
            if not all(val(world, k) == (v > 0) for k, v in evidence):
                continue
            z += w
            for nm, k in queries:
                if val(world, k):
                    acc[nm] += w
    if z == 0:
        return ("err", "InconsistentEvidence")
    return ("ok", {nm: acc[nm] / z for nm in acc})


# ------------------------------------------------------------------ symbolic semiring: model = implementation, reader = Python
SYM_HEADER = """From Coq Require Import List Bool Arith String QArith.
From PL.C10 Require Import ModelCircuit.
From PL.C05 Require Import ModelSym.
Import ListNotations.
Local Open Scope string_scope.
Definition wtab (t : list (nat * (string * string))) (v : nat) (b : bool) : sx :=
  match find (fun p => Nat.eqb (fst p) v) t with
  | Some (_, (p, n)) => SAtom (if b then p else n)
  | None => SAtom "1"
  end.
Definition atab (t : list (string * Q)) (s : string) : Q :=
  match find (fun p => String.eqb (fst p) s) t with Some (_, q) => q | None => 0%Q end.
Definition ev_ok (t : list (nat * (string * string))) (C : circuit) (s : string) : bool :=
  String.eqb (print (c_eval_l SymOps (wtab t) C)) s.
Definition rd_ok (t : list (string * Q)) (ts : list tok) (s : string) (q : Q) : bool :=
  String.eqb (spell_all ts) s && match readQ (atab t) ts with Some r => Qeq_bool r q | None => false end.
"""


def symbolic_dump(kc):
    """The compiled DDNNF as the evaluator sees it under SemiringSymbolic: nodes (atoms named by their own node key),
    the (pos, neg) weight strings of extract_weights, and the string SimpleDDNNFEvaluator computes for the root."""
    from problog.evaluator import SemiringSymbolic
    from problog.ddnnf_formula import SimpleDDNNFEvaluator
    ev = SimpleDDNNFEvaluator(kc, SemiringSymbolic())
    ev._initialize(False)
    nodes = []
    for i, node, t in kc:
        if t == "atom":
            nodes.append(("A", i))
        else:
            ch = []
            for c in node.children:
                if c is None:
                    ch.append(("F",))
                elif c == 0:
                    ch.append(("T",))
                elif c > 0:
                    ch.append(("P", c - 1))
                else:
                    ch.append(("N", -c - 1))
            nodes.append(("C" if t == "conj" else "D", ch))
    weights = {int(i): (str(w[0]), str(w[1])) for i, w in ev.weights.items() if i != 0}
    return {"nodes": nodes, "weights": weights, "root": str(ev._get_weight(len(kc)))}


def coq_circuit(nodes):
    def ref(r):
        return {"T": "RT", "F": "RF"}.get(r[0]) or ("(%s %d%%nat)" % ("RPos" if r[0] == "P" else "RNeg", r[1]))
    items = []
    for kind, arg in nodes:
        if kind == "A":
            items.append("Atom %d%%nat" % arg)
        else:
            items.append("%s [%s]" % ("Conj" if kind == "C" else "Disj", "; ".join(ref(r) for r in arg)))
    return "[" + "; ".join(items) + "]"


NUM = re.compile(r"\d+(?:\.\d*)?(?:[eE][+-]?\d+)?")


def lex_symbolic(s):
    """Cut a SemiringSymbolic result into the tokens of ModelSym.v (fails closed)."""
    toks, atoms, i = [], set(), 0
    while i < len(s):
        m = NUM.match(s, i)
        if m:
            toks.append("TAtom " + vf.coq_string(m.group(0)))
            atoms.add(m.group(0))
            i = m.end()
        elif s.startswith(" + ", i):
            toks.append("TPlus"); i += 3
        elif s.startswith(" / ", i):
            toks.append("TSlash"); i += 3
        elif s[i] in "()*-":
            toks.append({"(": "TLP", ")": "TRP", "*": "TStar", "-": "TMinus"}[s[i]]); i += 1
        else:
            raise ValueError("cannot lex %r at %d" % (s, i))
    return toks, atoms


def exact_value(s):
    """Python's own reading of the expression (ast of `eval` mode), computed with exact rationals."""
    import ast
    tree = ast.parse(s, mode="eval")

    def go(n):
        if isinstance(n, ast.Expression):
            return go(n.body)
        if isinstance(n, ast.Constant) and isinstance(n.value, (int, float)) and not isinstance(n.value, bool):
            return Fraction(ast.get_source_segment(s, n))
        if isinstance(n, ast.BinOp) and isinstance(n.op, (ast.Add, ast.Sub, ast.Mult, ast.Div)):
            a, b = go(n.left), go(n.right)
            if isinstance(n.op, ast.Add):
                return a + b
            if isinstance(n.op, ast.Sub):
                return a - b
            if isinstance(n.op, ast.Mult):
                return a * b
            return a / b
        raise ValueError("unexpected syntax %s in %r" % (type(n).__name__, s))
    return go(tree)


def coq_q(fr):
    return "(%d # %d)%%Q" % (fr.numerator, fr.denominator)


def symbolic_ties(ctx, outs):
    """(1) print (c_eval_l SymOps w C) evaluated by Coq == the string SimpleDDNNFEvaluator + SemiringSymbolic computes;
    (2) the Coq reader on the tokens of every observed symbolic result == Python's reading of that string (exact)."""
    cases, what = [], []
    seen = set()
    for o in outs:
        sd = o.get("sym_dump")
        if sd is not None:
            if "error" in sd:
                ctx.broken.append("harness:symbolic dump failed %s on %r" % (sd["error"], o["src"]))
            else:
                tab = "[" + "; ".join("(%d%%nat, (%s, %s))" % (i, vf.coq_string(p), vf.coq_string(n))
                                      for i, (p, n) in sorted(sd["weights"].items())) + "]"
                cases.append("ev_ok %s %s %s" % (tab, coq_circuit(sd["nodes"]), vf.coq_string(sd["root"])))
                what.append(("evaluator", o["src"], sd["root"]))
                ctx.count("symbolic_tie:evaluator string")
        for b, sname, r in o.get("runs", []):
            if sname != "symbolic" or r[0] != "ok" or not r[2]:
                continue
            for expr in r[2].values():
                if expr in seen:
                    continue
                seen.add(expr)
                try:
                    toks, atoms = lex_symbolic(expr)
                    val = exact_value(expr)
                except ZeroDivisionError:
                    ctx.count("symbolic_tie:reader skipped (division by zero)")
                    continue
                except (ValueError, SyntaxError) as e:
                    ctx.count("symbolic_tie:reader skipped (cannot lex/parse)")
                    ctx.notes.append("symbolic reader tie skipped: %s" % (e,))
                    continue
                atab = "[" + "; ".join("(%s, %s)" % (vf.coq_string(a), coq_q(Fraction(a))) for a in sorted(atoms)) + "]"
                cases.append("rd_ok %s [%s] %s %s" % (atab, "; ".join(toks), vf.coq_string(expr), coq_q(val)))
                what.append(("reader", o["src"], expr))
                ctx.count("symbolic_tie:reader")
    if not cases:
        return
    try:
        bad = ctx.coq_failing(SYM_HEADER, cases, name="c05sym", shard=60)
    except RuntimeError as e:
        ctx.broken.append("correspondence:symbolic model could not be evaluated by Coq")
        ctx.notes.append(str(e)[-2000:])
        return
    for i in bad:
        kind, src, expr = what[i]
        if kind == "evaluator":
            ctx.broken.append("correspondence:print (c_eval_l SymOps w C) differs from SimpleDDNNFEvaluator's string %r on %r" % (expr, src))
        else:
            ctx.broken.append("correspondence:Coq reader and Python disagree on the symbolic result %r (program %r)" % (expr, src))


# ------------------------------------------------------------------ worker
def c05_case(src):
    out = {"src": src}
    d = C10.compile_case(("prog", src))
    out["c10"] = d
    if "frontend_error" in d or "skipped" in d or "nodes" not in d:
        return out
    import problog
    from problog.program import PrologString
    from problog.formula import LogicFormula, LogicDAG
    from problog.errors import InstallError
    from problog.evaluator import FormulaEvaluatorNSP
    try:
        lf = LogicFormula.create_from(PrologString(src))
        dag = LogicDAG.create_from(lf)
        ref = brute_force(dag)
    except BaseException as e:  # noqa
        if isinstance(e, (KeyboardInterrupt, SystemExit)):
            raise
        out["judge_error"] = repr(e)
        return out
    if ref is None:
        out["judge_skipped"] = True
        return out
    out["ref"] = ("ok", {k: str(v) for k, v in ref[1].items()}) if ref[0] == "ok" else ref
    semirings, CustomProb = make_semirings()
    runs = {}
    unavailable = {}
    for backend in list(problog.get_evaluatables()) + [None]:
        bname = backend or "default"
        if backend in EXACT_BACKENDS_SKIP:
            unavailable[bname] = EXACT_BACKENDS_SKIP[backend]
            continue
        try:
            kc = pl.with_timeout(lambda: problog.get_evaluatable(backend).create_from(lf), 180)
        except InstallError as e:
            unavailable[bname] = "InstallError: " + str(e)[:80]
            continue
        except BaseException as e:  # noqa
            if isinstance(e, (KeyboardInterrupt, SystemExit)):
                raise
            runs[(bname, "*")] = ("err", pl.err_class(e), None)
            continue
        for sname, cls in semirings:
            try:
                if cls is None:
                    res = kc.evaluate()
                else:
                    res = kc.evaluate(semiring=cls())
                if sname == "symbolic":
                    raw = {str(k): str(v) for k, v in res.items()}
                    runs[(bname, sname)] = ("ok", {k: eval_expr(v) for k, v in raw.items()}, raw)
                else:
                    runs[(bname, sname)] = ("ok", {str(k): float(v) for k, v in res.items()}, None)
            except InstallError as e:
                unavailable[bname] = "InstallError: " + str(e)[:80]
                break
            except ZeroDivisionError:
                runs[(bname, sname)] = ("err", "ZeroDivisionError", None)
            except BaseException as e:  # noqa
                if isinstance(e, (KeyboardInterrupt, SystemExit)):
                    raise
                runs[(bname, sname)] = ("err", pl.err_class(e), None)
        # FormulaEvaluatorNSP (the evaluator the DD backends use for NSP semirings) directly on the compiled circuit:
        # its root value must be the unconditioned weighted model count
        if type(kc).__name__ == "DDNNF" and bname == "ddnnf" and len(kc) > 0:
            try:
                out["sym_dump"] = symbolic_dump(kc)
            except BaseException as e:  # noqa
                if isinstance(e, (KeyboardInterrupt, SystemExit)):
                    raise
                out["sym_dump"] = {"error": repr(e)}
            try:
                ev = FormulaEvaluatorNSP(kc, CustomProb())
                ev.propagate()
                out["nsp_root"] = float(ev.evaluate(len(kc)))
            except BaseException as e:  # noqa
                if isinstance(e, (KeyboardInterrupt, SystemExit)):
                    raise
                out["nsp_root"] = "err:" + pl.err_class(e)
    out["runs"] = [(b, s, r) for (b, s), r in runs.items()]
    out["unavailable"] = unavailable
    return out


# ------------------------------------------------------------------ comparison
def same(a, b):
    if a[0] != b[0]:
        return False
    if a[0] == "err":
        return a[1] == b[1]
    ks = set(a[1]) | set(b[1])
    return all(abs(float(Fraction(a[1].get(k, 0))) - float(Fraction(b[1].get(k, 0)))) <= TOL for k in ks)


def reparenthesised(raw):
    """The value the symbolic result would have if normalize had written (a) / (z)."""
    res = {}
    for k, s in raw.items():
        if " / " in s:
            a, z = s.split(" / ", 1)
            s = "(%s) / (%s)" % (a, z)
        res[k] = eval_expr(s)
    return res


def generate(ctx):
    """C05_symbolic_is_source is about the C12 translator's rendering of class SemiringSymbolic: regenerate it from the
    current sources (same generator and file as C12/C30 use)."""
    import importlib.util
    path = os.path.join(vf.VERIF, "gen", "c12_semiring.py")
    spec = importlib.util.spec_from_file_location("c12_semiring", path)
    mod = importlib.util.module_from_spec(spec)
    spec.loader.exec_module(mod)
    text, _ = mod.translate(vf.REPO)
    ctx.generate("C12/GenSemirings.v", text)


def run(ctx):
    ctx.cov["rule"] = ("random ProbLog programs (C10/C05 generator: facts, ADs, stratified negation, positive recursion, graph "
                       "reachability, evidence); every available backend x 6 semiring configurations; non-trivial = the program has "
                       ">= 2 probabilistic choices, a query that is neither 0 nor 1, and dsharp was really called; "
                       "distinct = distinct program texts")
    ctx.assumptions += ["PySDD / dd are not installed: sdd, sddx, fsdd, bdd, fbdd raise InstallError and are recorded as unavailable",
                        "kbest is not an exact-WMC backend and is left to C23",
                        "judge: brute-force enumeration of total choices of the LogicDAG (<= 16 choices) with exact rationals"]
    try:
        generate(ctx)
        ctx.prove("C05/Props.v")
    except Exception as e:  # noqa  (the C12 translator fails closed on unknown syntax: the obligations are broken, the judges still run)
        ctx.cov["obligations"] = max(ctx.cov["obligations"], 1)
        ctx.broken.append("translator:cannot translate SemiringSymbolic from the current sources (%s: %s)" % (type(e).__name__, str(e)[:300]))
    ctx.log("proofs checked")
    if ctx.tier == "thorough":
        ctx.coqchk("PL.C05.Props")
        ctx.log("coqchk done")
    C10.NMAX = ctx.n(12, 14)
    with open(os.path.join(vf.VERIF, "gen", "c10_driver.ml")) as f:
        driver = f.read()
    try:
        exe = ctx.ocaml_oracle("c10", C10.EXTRACT_V, driver)
    except RuntimeError as e:
        ctx.broken.append("oracle:extraction of the circuit model failed")
        ctx.notes.append(str(e))
        return
    if ctx.replay:
        srcs = [ctx.replay["replay"]["src"]]
    else:
        srcs = []
        cdir = os.path.join(vf.CORPUS, "C05")
        if os.path.isdir(cdir):
            import json
            for fn in sorted(os.listdir(cdir)):
                with open(os.path.join(cdir, fn)) as f:
                    srcs.append(json.load(f)["src"])
        for _ in range(ctx.n(70, 500)):
            srcs.append(c10_gen.gen_program(ctx.rng, big=ctx.rng.random() < ctx.n(0.2, 0.4)))
    outs = pl.pmap(c05_case, srcs, jobs=ctx.n(8, 14))
    ctx.log("ran %d programs" % len(outs))
    todo, lines = [], []
    for o in outs:
        d = o["c10"]
        for k in ("frontend_error", "skipped"):
            if k in d:
                ctx.count(k + ":" + str(d[k]))
        if "judge_error" in o:
            ctx.broken.append("harness:judge failed %s on %r" % (o["judge_error"], o["src"]))
            continue
        if "ref" not in o or "nodes" not in d:
            if o.get("judge_skipped"):
                ctx.count("judge_skipped:>16 choices")
            continue
        n = d["n"]
        p_spec = C10.plan(d, False)
        W0 = C10.vec(C10.base_weights(d), n)
        vectors = []
        for v in [W0] + p_spec["vectors"]:
            if v not in vectors:
                vectors.append(v)
        lines.append(C10.request(d, vectors, []))
        todo.append((o, d, p_spec, vectors, W0))
    try:
        answers = C10.run_oracle(ctx, exe, lines, jobs=ctx.n(8, 14))
    except Exception as e:  # noqa
        ctx.broken.append("oracle:extracted model crashed")
        ctx.notes.append(str(e))
        return
    for (o, d, p_spec, vectors, W0), line in zip(todo, answers):
        bits, vals, _ = C10.parse_answer(line, len(vectors))
        wmc = {v: vals[i][1] for i, v in enumerate(vectors)}
        ev = {v: vals[i][0] for i, v in enumerate(vectors)}
        ref = o["ref"]
        refx = ("ok", {k: Fraction(v) for k, v in ref[1].items()}) if ref[0] == "ok" else ref
        model = C10.combine(p_spec, lambda v: wmc[v], True) if (p_spec["inconsistent"] or p_spec["has_ev"]) else C10.combine(p_spec, lambda v: wmc[v], False)
        src = o["src"]
        for b, why in o["unavailable"].items():
            ctx.count("backend_unavailable:%s" % b)
        ctx.cov.setdefault("unavailable_backends", {}).update(o["unavailable"])
        nchoices = src.count("::")
        vals_q = list(refx[1].values()) if refx[0] == "ok" else []
        nontrivial = nchoices >= 2 and any(0 < v < 1 for v in vals_q) and not d["trivial"]
        ctx.case(src, nontrivial, sample={"program": src, "reference": C10.fmt(refx) if refx[0] == "ok" else refx})
        ctx.count("reference:" + ("ok" if refx[0] == "ok" else refx[1]))
        # tie: Coq model's exact WMC of the ground formula == brute-force judge (exact)
        if not (model[0] == refx[0] and (model[0] == "err" or all(model[1].get(k, 0) == refx[1].get(k, 0) for k in set(model[1]) | set(refx[1])))):
            ctx.broken.append("correspondence:Coq wmc_cnf %r vs possible-world judge %r on %r" % (C10.fmt(model), C10.fmt(refx), src))
        if bits[5] and any(ev[v] != wmc[v] for v in vectors):
            ctx.broken.append("correspondence:checked circuit but c_eval <> wmc_cnf on %r" % (src,))
        # NSP evaluator's root value == unconditioned WMC (C05_nsp_checked)
        if "nsp_root" in o:
            ctx.count("nsp_root_checked")
            nr = o["nsp_root"]
            if isinstance(nr, str) or abs(nr - float(wmc[W0])) > TOL:
                ctx.violation("FormulaEvaluatorNSP root value %r, weighted model count %s" % (nr, wmc[W0]),
                              {"src": src, "observed": nr, "expected": str(wmc[W0])}, klass=None)
        for b, s, r in o["runs"]:
            ctx.count("run:%s/%s" % (b, s))
            got = (r[0], r[1])
            if same(got, refx):
                continue
            klass = None
            if s == "symbolic" and r[0] == "ok" and r[2] is not None and any(" / " in x for x in r[2].values()):
                try:
                    if same(("ok", reparenthesised(r[2])), refx):
                        klass = "symbolic-normalize-unparenthesised"
                except Exception:  # noqa
                    pass
            if s == "symbolic" and r[0] == "err" and r[1] == "ZeroDivisionError" and refx[0] == "ok":
                # a / x*y with y == 0 ... still the same defect only if re-parenthesising is impossible to test; keep unclassified
                klass = None
            ctx.violation("backend %s with semiring %s gives %r; possible-world semantics gives %r%s"
                          % (b, s, C10.fmt(got) if got[0] == "ok" else got, C10.fmt(refx) if refx[0] == "ok" else refx,
                             ("; symbolic expression: %r" % (r[2],)) if r[2] else ""),
                          {"src": src, "backend": b, "semiring": s, "observed": got, "expected": C10.fmt(refx) if refx[0] == "ok" else refx,
                           "symbolic": r[2]}, klass=klass)
    symbolic_ties(ctx, outs)
    ctx.log("symbolic ties done")
    ctx.cov["programs_compared"] = len(todo)
