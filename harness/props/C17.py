"""C17 -- the parser is total and printing round-trips (problog/parser.py, program.py, logic.py)."""
import collections
import hashlib
import io
import os
import re
import sys
import traceback
import warnings

import vf
import pl

sys.path.insert(0, os.path.join(vf.VERIF, "gen"))
import c17_terms as T  # noqa: E402

META = {
    "id": "C17",
    "level": "proof",
    "technique": "Coq proof (round trip of a hand model of the term printer against a reference operator-precedence reader, "
                 "token level and string level) + byte-for-byte differential tie of the printer model with str() + "
                 "property-level judge with the real PrologParser; totality half: token-mutation SEARCH (no proof)",
    "design_ref": "DESIGN.md section 5 C17",
    "text": "C17_roundtrip: printable s -> read_string (print_stmt s) = Some s, for every statement (clause, fact, directive, "
            "annotated disjunction over variables, numbers, strings, atoms, compound terms, the operator table with xfx/xfy/yfx/fy/fx, "
            "negation, conjunction/disjunction, lists with tails, probability annotations); printable = structural operand/priority "
            "conditions (ok_stmt) && the reference tokenizer recovers the printer's token list (lex_ok, a computed check). "
            "The printer model (ModelPrinter.v) is compared byte for byte with str() of the real objects on generated ASTs; the real "
            "PrologParser is judged directly on the same ASTs (print, re-parse, structural comparison without Term.__eq__). "
            "PARTIAL for totality: the 1500-line tokenizer/labeller of parser.py is not modelled; the check only searches for inputs on "
            "which PrologString/iteration/prepare raise a non-ProbLogError exception (token mutations of the test corpus and of "
            "generated programs, token soups).",
    "note": "Trusted: Coq kernel + vm_compute; hand model of the printer (tie is sampled); the reference reader is a specification "
            "artefact (standard operator precedence reading with ProbLog's functional-notation convention), not a model of PrologParser.",
}

EXTRACT_V = """From Coq Require Import String List ZArith NArith Bool Ascii.
From Coq Require Extraction.
Require Import ExtrOcamlBasic.
From PL.C17 Require Import ModelPrinter ModelReader.
Definition b2n (b : bool) : nat := if b then 1 else 0.
Definition code (s : stmt) (e : string) : nat :=
  8 * b2n (String.eqb (print_stmt s) e) + 4 * b2n (ok_stmt s) + 2 * b2n (lex_ok s) + b2n (read_ok s).
Definition z_of_dec (neg : bool) (s : string) : Z :=
  let n := digits_to_N s 0%N in if neg then Z.opp (Z.of_N n) else Z.of_N n.
Definition nat_of_dec (s : string) : nat := N.to_nat (digits_to_N s 0%N).
Extraction "oracle.ml" code z_of_dec nat_of_dec.
"""

# unverified glue: reads one statement per line (prefix notation, strings hex encoded), prints the code
DRIVER_ML = r"""
let coq_string (s : Stdlib.String.t) : Oracle.string =
  let r = ref Oracle.EmptyString in
  for i = Stdlib.String.length s - 1 downto 0 do
    let c = Char.code s.[i] in
    let b k = (c lsr k) land 1 = 1 in
    r := Oracle.String (Oracle.Ascii (b 0, b 1, b 2, b 3, b 4, b 5, b 6, b 7), !r)
  done; !r
let unhex (h : Stdlib.String.t) : Stdlib.String.t =
  if h = "_" then "" else
  let n = Stdlib.String.length h / 2 in
  Stdlib.String.init n (fun i -> Char.chr (int_of_string ("0x" ^ Stdlib.String.sub h (2*i) 2)))
let rec nat_to_int = function Oracle.O -> 0 | Oracle.S n -> 1 + nat_to_int n
let spec_of = function
  | "xfx" -> Oracle.XFX | "xfy" -> Oracle.XFY | "yfx" -> Oracle.YFX | "fy" -> Oracle.FY | "fx" -> Oracle.FX
  | s -> failwith ("spec " ^ s)
let () =
  try
    while true do
      let line = input_line stdin in
      let toks = Array.of_list (Stdlib.String.split_on_char ' ' line) in
      let pos = ref 0 in
      let next () = let t = toks.(!pos) in incr pos; t in
      let str () = coq_string (unhex (next ())) in
      let rec tm () =
        match next () with
        | "V" -> Oracle.Var (str ())
        | "I" -> let t = next () in
                 if t.[0] = '-' then Oracle.Int (Oracle.z_of_dec true (coq_string (Stdlib.String.sub t 1 (Stdlib.String.length t - 1))))
                 else Oracle.Int (Oracle.z_of_dec false (coq_string t))
        | "F" -> let n = next () in let s = str () in Oracle.Flt (n = "1", s)
        | "S" -> Oracle.Str (str ())
        | "A" -> let f = str () in let n = int_of_string (next ()) in
                 let args = List.init n (fun _ -> ()) in
                 let args = List.map (fun () -> tm ()) args in Oracle.App (f, args)
        | "B" -> let n = str () in let p = Oracle.nat_of_dec (coq_string (next ())) in let s = spec_of (next ()) in
                 let a = tm () in let b = tm () in Oracle.Bin (n, p, s, a, b)
        | "U" -> let n = str () in let p = Oracle.nat_of_dec (coq_string (next ())) in let s = spec_of (next ()) in
                 let a = tm () in Oracle.Un (n, p, s, a)
        | "N" -> let f = str () in let a = tm () in Oracle.Neg (f, a)
        | "&" -> let a = tm () in let b = tm () in Oracle.And (a, b)
        | ";" -> let a = tm () in let b = tm () in Oracle.Or (a, b)
        | "C" -> let a = tm () in let b = tm () in Oracle.Cons (a, b)
        | "P" -> let a = tm () in let b = tm () in Oracle.Prob (a, b)
        | t -> failwith ("tm " ^ t) in
      let st =
        match next () with
        | "f" -> Oracle.SFact (tm ())
        | "c" -> let h = tm () in let b = tm () in Oracle.SClause (h, b)
        | "d" -> Oracle.SDirective (tm ())
        | "a" -> let n = int_of_string (next ()) in
                 let hs = List.map (fun () -> tm ()) (List.init n (fun _ -> ())) in
                 let b = tm () in Oracle.SAD (hs, b)
        | t -> failwith ("stmt " ^ t) in
      let e = str () in
      print_string (string_of_int (nat_to_int (Oracle.code st e)));
      print_newline ()
    done
  with End_of_file -> ()
"""


def hx(s):
    b = s.encode("utf8")
    return b.hex() if b else "_"


def enc_tm(t, out):
    k = t[0]
    if k == "var":
        out += ["V", hx(t[1])]
    elif k == "int":
        out += ["I", str(t[1])]
    elif k == "flt":
        out += ["F", "1" if t[1] else "0", hx(t[2])]
    elif k == "str":
        out += ["S", hx(t[1])]
    elif k == "app":
        out += ["A", hx(t[1]), str(len(t[2]))]
        for a in t[2]:
            enc_tm(a, out)
    elif k == "bin":
        out += ["B", hx(t[1]), str(t[2]), t[3]]
        enc_tm(t[4], out)
        enc_tm(t[5], out)
    elif k == "un":
        out += ["U", hx(t[1]), str(t[2]), t[3]]
        enc_tm(t[4], out)
    elif k == "neg":
        out += ["N", hx(t[1])]
        enc_tm(t[2], out)
    else:
        out.append({"and": "&", "or": ";", "cons": "C", "prob": "P"}[k])
        enc_tm(t[1], out)
        enc_tm(t[2], out)


def enc_case(s, expected):
    out = []
    k = s[0]
    if k == "fact":
        out.append("f")
        enc_tm(s[1], out)
    elif k == "clause":
        out.append("c")
        enc_tm(s[1], out)
        enc_tm(s[2], out)
    elif k == "directive":
        out.append("d")
        enc_tm(s[1], out)
    else:
        out += ["a", str(len(s[1]))]
        for h in s[1]:
            enc_tm(h, out)
        enc_tm(s[2], out)
    out.append(hx(expected))
    return " ".join(out)


# ------------------------------------------------------------------ Coq evaluation of the model
def coq_codes(ctx, cases, name="ast"):
    """cases: list of (stmt_ast, expected_text). Returns list of ints
    8*print_equal + 4*ok_stmt + 2*lex_ok + read_ok, computed by the OCaml extraction of the Coq model
    (ExtrOcamlBasic only; the driver that decodes the request lines is unverified glue)."""
    if not cases:
        return []
    exe = ctx.ocaml_oracle("c17", EXTRACT_V, DRIVER_ML)
    lines = [enc_case(s, e) for s, e in cases]
    out = ctx.oracle(exe, lines)
    return [int(x) for x in out]


def coq_spotcheck(ctx, cases, k=40):
    """the same codes evaluated by vm_compute inside coqc on a small sample: guards the extraction + driver glue"""
    header = """From Coq Require Import String List ZArith NArith Bool Ascii.
From PL.C17 Require Import ModelPrinter ModelReader.
Import ListNotations.
Open Scope string_scope.
Definition b2n (b : bool) : nat := if b then 1 else 0.
Definition code (s : stmt) (e : string) : nat :=
  8 * b2n (String.eqb (print_stmt s) e) + 4 * b2n (ok_stmt s) + 2 * b2n (lex_ok s) + b2n (read_ok s).
"""
    terms = ["Nat.eqb (code %s %s) %d" % (T.coq_stmt(s), T.coq_str(e), c) for (s, e), c in cases[:k]]
    return ctx.coq_failing(header, terms, name="spot")


# ------------------------------------------------------------------ the real implementation
def parse_text(src):
    """PrologString(src) fully iterated -> ('ok', [objects]) | ('err', ProbLogErrorClass, msg) | ('exc', ExcName, site, msg)"""
    from problog.program import PrologString
    from problog.errors import ProbLogError
    try:
        with warnings.catch_warnings():
            warnings.simplefilter("ignore")
            prog = PrologString(src)
            return ("ok", list(prog))
    except ProbLogError as e:
        return ("err", type(e).__name__, str(e)[:120])
    except RecursionError as e:
        return ("exc", "RecursionError", "", "")
    except Exception as e:  # noqa
        return ("exc", type(e).__name__, exc_site(e), str(e)[:160])


def exc_site(e):
    tb = traceback.extract_tb(e.__traceback__)
    for fr in reversed(tb):
        if "/problog/" in fr.filename:
            return "%s:%s" % (os.path.basename(fr.filename), fr.name)
    return "?"


def judge(s):
    """Round trip of one AST through the real printer and parser.
    returns dict(text, image, outcome, detail)  outcome in ok / diff / err / exc"""
    o = T.build_stmt(s)
    text = str(o)
    c0 = T.canon(o)
    r0 = parse_text(T.src_full_stmt(s))
    image = r0[0] == "ok" and len(r0[1]) == 1 and T.canon(r0[1][0]) == c0
    r = parse_text(text + " .")
    if r[0] == "ok":
        if len(r[1]) == 1 and T.canon(r[1][0]) == c0:
            return {"text": text, "image": image, "outcome": "ok", "detail": ""}
        return {"text": text, "image": image, "outcome": "diff",
                "detail": "; ".join(str(x) for x in r[1])[:200] + "  [" + "; ".join(repr(T.canon(x))[:300] for x in r[1][:2]) + "]"}
    if r[0] == "err":
        return {"text": text, "image": image, "outcome": "err", "detail": "%s: %s" % (r[1], r[2])}
    return {"text": text, "image": image, "outcome": "exc", "detail": "%s at %s: %s" % (r[1], r[2], r[3])}


# classes of printer defects, by the reason the statement is outside [printable]
CLASS_ORDER = [
    ("probability-annotation-dropped-by-printer", {"prob-on-nonplain"}),
    ("not-as-argument-printed-in-functional-notation", {"not-inner"}),
    ("token-of-backslash-eq-at-eq-has-string-backslash-plus", {"eqat-token"}),
    ("unary-operator-operand-not-parenthesised", {"unary-operand-priority", "unary-operand-paren"}),
    ("conjunction-disjunction-negation-operand-not-parenthesised",
     {"and-left-priority", "and-right-priority", "or-left-priority", "or-right-priority", "neg-operand-priority",
      "prob-priority", "head-priority", "body-priority", "fact-priority"}),
    ("argument-of-priority-1000-or-more-not-parenthesised", {"arg-priority"}),
    ("operand-without-operator-annotation-not-parenthesised", {"left-operand-priority", "right-operand-priority"}),
    ("mixed-associativity-same-priority-left-operand", {"left-operand-rlevel"}),
    ("operator-symbol-used-as-atom", {"operator-symbol-as-atom", "atom-is-prefix-operator", "functor-not-ct-capable"}),
]


def classify(s, code, verdict):
    """narrow class of a round-trip failure: (class or None, reasons)"""
    reasons = set(T.why_not_ok(s))
    lex = set(T.lexical_reasons(s))
    allr = reasons | lex
    for name, rs in CLASS_ORDER:
        if allr & rs:
            return name, sorted(allr)
    okb = bool(code & 4) if code is not None else (not reasons)
    lexb = bool(code & 2) if code is not None else None
    if okb and lexb is False and not lex:
        return "symbolic-operator-glued-to-next-token", sorted(allr) + ["glue"]
    if okb and T.has_nested_prefix(s):
        return "nested-prefix-operators-misparsed", sorted(allr) + ["nested-prefix"]
    if okb and verdict["outcome"] == "err" and any(
            t[0] == "bin" and t[3] == "yfx" and T.core(t[4])[0] == "bin" and T.core(t[4])[2] == t[2] and T.core(t[4])[3] == "xfx"
            for t in T.stmt_terms(s)):
        # a=<b=>c : standard reading (a=<b)=>c; PrologParser.fold picks the first of two equal-priority operators
        # unless the first one is yfx, and then reports a priority clash
        return "same-priority-xfx-left-operand-of-yfx-rejected-by-parser", sorted(allr) + ["xfx-under-yfx"]
    return None, sorted(allr)


# ------------------------------------------------------------------ shrinking of ASTs
def children(t):
    k = t[0]
    if k == "app":
        return list(t[2])
    if k == "bin":
        return [t[4], t[5]]
    if k == "un":
        return [t[4]]
    if k == "neg":
        return [t[2]]
    if k in ("and", "or", "cons", "prob"):
        return [t[1], t[2]]
    return []


def rebuild(t, i, new):
    k = t[0]
    if k == "app":
        a = list(t[2])
        a[i] = new
        return ("app", t[1], a)
    if k == "bin":
        return t[:4] + ((new, t[5]) if i == 0 else (t[4], new))
    if k == "un":
        return t[:4] + (new,)
    if k == "neg":
        return ("neg", t[1], new)
    return (k, new, t[2]) if i == 0 else (k, t[1], new)


def variants(t):
    """smaller terms obtained by one local replacement"""
    atom = ("app", "a", [])
    if t != atom and t[0] != "var":
        yield atom
    if t[0] == "var" and t[1] != "X":
        yield ("var", "X")
    for c in children(t):
        yield c
    for i, c in enumerate(children(t)):
        for v in variants(c):
            if t[0] == "un" and t[1] == "-" and v[0] in ("int", "flt"):
                continue
            yield rebuild(t, i, v)


def stmt_variants(s):
    k = s[0]
    if k == "fact":
        for v in variants(s[1]):
            yield ("fact", v)
    elif k == "directive":
        for v in variants(s[1]):
            yield ("directive", v)
    elif k == "clause":
        yield ("fact", s[1])
        yield ("fact", ("app", "x", [s[2]]))
        yield ("clause", ("app", "x", []), s[2])
        for v in variants(s[2]):
            yield ("clause", s[1], v)
        for v in variants(s[1]):
            if T.core(v)[0] in ("app", "bin", "un", "cons"):
                yield ("clause", v, s[2])
    elif k == "ad":
        yield ("clause", s[1][0], s[2])
        for h in s[1]:
            yield ("fact", h)
        if len(s[1]) > 2:
            for i in range(len(s[1])):
                yield ("ad", s[1][:i] + s[1][i + 1:], s[2])
        for v in variants(s[2]):
            yield ("ad", s[1], v)
        for i, h in enumerate(s[1]):
            for v in variants(h):
                if T.core(v)[0] in ("app", "bin", "un", "cons"):
                    yield ("ad", s[1][:i] + [v] + s[1][i + 1:], s[2])


def measure(s):
    return (stmt_size(s), len(T.p_stmt(s).encode("utf8")))


def shrink_stmt(s, bad, budget=300):
    cur = s
    improved = True
    while improved and budget > 0:
        improved = False
        m = measure(cur)
        for v in stmt_variants(cur):
            if measure(v) >= m:
                continue
            budget -= 1
            if budget <= 0:
                break
            try:
                if bad(v):
                    cur = v
                    improved = True
                    break
            except Exception:
                continue
    return cur


def stmt_size(s):
    return sum(1 for _ in T.stmt_terms(s))


# ------------------------------------------------------------------ AST stream
def run_asts(ctx):
    n = ctx.n(2000, 60000)
    ncoq = ctx.n(2000, 24000)
    gen = T.Gen(ctx.rng)
    stmts = []
    for i in range(n):
        stmts.append(gen.stmt(ctx.rng.choice([1, 2, 2, 3, 3])))
    # real implementation
    ctx.log("judging %d generated statements with the real printer/parser" % n)
    verdicts = pl.pmap(judge, stmts, jobs=12, chunksize=50)
    ctx.log("evaluating the Coq model on %d statements" % ncoq)
    # python mirror of the model (cheap, all cases) and Coq model (authoritative, first ncoq cases)
    cases = [(s, v["text"]) for s, v in zip(stmts[:ncoq], verdicts[:ncoq])]
    codes = [None] * n
    try:
        got = coq_codes(ctx, cases)
        codes[:len(got)] = got
        bad = coq_spotcheck(ctx, list(zip(cases, got)), ctx.n(40, 400))
        for i in bad:
            ctx.broken.append("correspondence:extracted oracle vs vm_compute disagree on %s" % T.coq_stmt(cases[i][0]))
        ctx.cov["oracle_spotcheck"] = {"cases": min(len(cases), ctx.n(40, 400)), "disagreements": len(bad)}
    except RuntimeError as e:
        ctx.broken.append("correspondence:printer model does not evaluate")
        ctx.notes.append(str(e))
    # failing statements beyond the Coq-evaluated prefix whose class needs the model's verdict (glue / printable)
    need = [i for i in range(ncoq, n)
            if verdicts[i]["image"] and verdicts[i]["outcome"] != "ok" and classify(stmts[i], None, verdicts[i])[0] is None]
    if need:
        try:
            got = coq_codes(ctx, [(stmts[i], verdicts[i]["text"]) for i in need], name="need")
            for i, c in zip(need, got):
                codes[i] = c
        except RuntimeError as e:
            ctx.broken.append("correspondence:printer model does not evaluate")
            ctx.notes.append(str(e))
    ctx.log("classifying")
    stats = collections.Counter()
    reported = collections.Counter()
    for i, (s, v, code) in enumerate(zip(stmts, verdicts, codes)):
        mirror = T.p_stmt(s)
        reasons = T.why_not_ok(s)
        nontrivial = stmt_size(s) >= 4
        ctx.case(("ast", repr(s)), nontrivial, sample={"printed": v["text"], "reparse": v["outcome"]})
        ctx.count("ast_" + s[0])
        ctx.count("roundtrip_" + v["outcome"] + ("" if v["image"] else "_not_in_parser_image"))
        # --- tie: model vs implementation, byte for byte
        if mirror != v["text"]:
            ctx.broken.append("correspondence:python mirror of the printer model vs str() on %r: %r vs %r" % (s, mirror, v["text"]))
        if code is not None:
            stats["coq_cases"] += 1
            if not code & 8:
                ctx.broken.append("correspondence:ModelPrinter.print_stmt vs str() on %s (python prints %r)" % (T.coq_stmt(s), v["text"]))
            okb, lexb, rdb = bool(code & 4), bool(code & 2), bool(code & 1)
            if okb != (not reasons):
                ctx.broken.append("correspondence:ok_stmt mirror vs Coq on %s (coq %s, python reasons %s)" % (T.coq_stmt(s), okb, reasons))
            if okb and lexb:
                stats["printable"] += 1
                if not rdb:
                    ctx.broken.append("model:read_string (print_stmt s) <> Some s on printable %s" % T.coq_stmt(s))
            if okb and not lexb:
                stats["ok_but_not_lexable"] += 1
        # --- judge: the property itself on the real implementation
        if not v["image"]:
            continue           # not producible by the parser: only the printer tie applies
        stats["in_parser_image"] += 1
        if v["outcome"] == "ok":
            stats["roundtrip_ok"] += 1
            continue
        klass, reasons_all = classify(s, code, v)
        stats["fail_" + (klass or "UNCLASSIFIED-before-shrinking")] += 1
        if klass is not None:
            reported[klass] += 1
            if reported[klass] > 2:
                continue
        if v["outcome"] == "exc":
            klass = None

        def code_of(c, jv):
            try:
                return coq_codes(ctx, [(c, jv["text"])])[0]
            except RuntimeError:
                return None

        def bad(c, klass=klass, outcome=v["outcome"]):
            jv = judge(c)
            if not jv["image"] or jv["outcome"] == "ok":
                return False
            if klass is None:
                return True          # any failure: shrink first, classify afterwards
            k2 = classify(c, None, jv)[0]
            if k2 is None and klass in ("symbolic-operator-glued-to-next-token", "nested-prefix-operators-misparsed"):
                k2 = classify(c, code_of(c, jv), jv)[0]
            return k2 == klass
        small = shrink_stmt(s, bad)
        jv = judge(small)
        if jv["outcome"] == "ok" or not jv["image"]:
            small, jv = s, v
        k_final, r_final = classify(small, code_of(small, jv), jv)
        if jv["outcome"] == "exc":
            k_final = None
        if klass is None:
            stats["fail_after_shrinking_" + (k_final or "UNCLASSIFIED")] += 1
            if k_final is not None:
                reported[k_final] += 1
                if reported[k_final] > 3:
                    continue
        ctx.violation(
            "round trip fails: source %r parses to a term that str() prints as %r; parsing that text gives %s %s [reasons outside printable: %s]"
            % (T.src_full_stmt(small), jv["text"], jv["outcome"], jv["detail"][:200], ",".join(r_final)),
            {"kind": "roundtrip", "source": T.src_full_stmt(small), "printed": jv["text"], "outcome": jv["outcome"],
             "detail": jv["detail"], "ast": small},
            klass=k_final)
    ctx.cov["ast_stream"] = dict(stats)


# ------------------------------------------------------------------ totality stream
TOKEN_RE = re.compile(r"""'(?:[^'\\\n]|\\.)*'|"(?:[^"\\\n]|\\.)*"|[A-Za-z_][A-Za-z0-9_]*|[0-9]+(?:\.[0-9]+)?(?:[eE][-+]?[0-9]+)?|%[^\n]*|\s+|[-+*/\\^<>=~:.?@#&$]+|.""", re.S)
POOL = ["(", ")", "[", "]", "|", ",", ".", " . ", ".\n", "'", '"', "<", ">", "avg<X>", "{", "}", "`", "$", "0x1F", "0x", "1e", "1.e5", ".5",
        "\\", "\\+", "not", "is", "::", ":-", "<-", "?", "!", "&", "#", "~", "\n", "%", "/*", "*/", "_", "\u00e9", "\u00dc", "\t", " ",
        "-", "+", "*", "**", "/", "//", "^", "=", "==", "=..", "=:=", "=\\=", "\\=", "\\==", "@<", "@>=", "=<", ">=", "->", "-->", "*->",
        ";", ":", "mod", "rdiv", "xor", "as", "~=", "~<", "\\\\", "\\/", "/\\", ">>", "<<", "><", "a", "b", "f(", "X", "Y", "_G", "0", "1",
        "2.5", "1e-05", "'q a'", '"s"', "[]", "[H|T]", "p(X)", "0.5::", "t(_)::", "query(", "evidence(", "max<X>", "<X>", "..", "...",
        ".(", "\\=@=", "~", "|", "||", "&", "#!", "'\\''", "\"\\\"\"", "\x7f", "\x00", "\u2200", "0'a", "a.b", "a. b", "1.", "1.2.3", "e", "E5"]


def corpus_texts():
    d = os.path.join(vf.REPO, "test")
    out = []
    for name in sorted(os.listdir(d)):
        if name.endswith(".pl"):
            try:
                with open(os.path.join(d, name), encoding="utf8", errors="replace") as f:
                    out.append((name, f.read()))
            except OSError:
                pass
    return out


def mutate(rng, text):
    toks = TOKEN_RE.findall(text)
    if len(toks) > 160:
        a = rng.randrange(0, len(toks) - 120)
        toks = toks[a:a + rng.randrange(20, 120)]
    for _ in range(rng.choice([1, 1, 2, 3, 5])):
        if not toks:
            toks = [rng.choice(POOL)]
        k = rng.random()
        i = rng.randrange(len(toks))
        nums = [j for j, t in enumerate(toks) if t[:1].isdigit()]
        if nums and rng.random() < 0.25:
            # number-token operators: change case, insert letters / prefixes / dots / underscores, replace by a fuzzed literal
            j = rng.choice(nums)
            toks[j] = mutate_number(rng, toks[j])
            continue
        if k < 0.2:
            del toks[i]
        elif k < 0.3:
            toks.insert(i, toks[i])
        elif k < 0.4 and len(toks) > 1:
            j = min(i + 1, len(toks) - 1)
            toks[i], toks[j] = toks[j], toks[i]
        elif k < 0.65:
            toks[i] = rng.choice(POOL)
        elif k < 0.9:
            toks.insert(i, rng.choice(POOL))
        elif k < 0.95:
            toks = toks[:i]
        else:
            toks.insert(i, rng.choice(["(", "[", "'", '"', "/*"]))
    return "".join(toks)


NUM_PREFIX = ["0x", "0X", "0b", "0B", "0o", "0O", "0'", "0e", "0E", "00x", "0x0X", ""]
NUM_LETTERS = "xXeEbBoOaAfFgGzZ_'.+-"


def num_literal(rng):
    """a fuzzed numeric-looking literal"""
    k = rng.random()
    digs = lambda n: "".join(rng.choice("0123456789") for _ in range(n))  # noqa: E731
    hexd = lambda n: "".join(rng.choice("0123456789abcdefABCDEF") for _ in range(n))  # noqa: E731
    if k < 0.3:
        body = rng.choice([hexd(rng.choice([0, 1, 2, 4])), digs(rng.choice([0, 1, 3])), "g", "yz", "1e5", "E1", "e", "_1", "1_0", "."])
        return rng.choice(NUM_PREFIX[:9]) + body
    if k < 0.55:
        ip = rng.choice(["", "0", "00", "007", digs(rng.choice([1, 2, 5, 19, 25]))])
        fp = rng.choice(["", "", ".", "..", "." + digs(rng.choice([1, 3])), "." + digs(1) + "." + digs(1), ".e5", "._1"])
        ex = rng.choice(["", "", "e", "E", "e+", "E-", "e" + digs(1), "E" + digs(2), "e+" + digs(1), "E-" + digs(3), "e--1", "E+-2", "e1e1", "e1.5", "e999", "E-999"])
        return ip + fp + ex
    if k < 0.65:
        return rng.choice(["inf", "Inf", "INF", "nan", "NaN", "NAN", "infinity", "-inf", "+inf", "1inf", "0nan", "1.0Inf", "1.5NaN", "0xinf", "1e", "1E", "1.e5", "1.E5", "0x", "0X", "0xg", "0Xg", "0b", "0b102", "0o8", "0'", "0''", "0'a", "0'ab", "1_000", "1__0", "_1", "1_", "0_x1"])
    if k < 0.72:
        return rng.choice(["9", "1", "0"]) * rng.choice([300, 1000, 4300, 4301, 5000, 20000])
    if k < 0.78:
        return "0." + "0" * rng.choice([300, 400, 5000]) + "1"
    if k < 0.84:
        return rng.choice(["1e", "1E", "0x", "0X"]) + rng.choice(["9", "f", "F"]) * rng.choice([20, 400, 5000])
    # random soup over the numeric alphabet
    return "".join(rng.choice("0123456789" * 3 + NUM_LETTERS) for _ in range(rng.choice([2, 3, 4, 6, 9])))


def mutate_number(rng, tok):
    k = rng.random()
    if k < 0.25:
        return tok.swapcase() if tok.swapcase() != tok else tok + rng.choice("eExX")
    if k < 0.55:
        i = rng.randrange(len(tok) + 1)
        return tok[:i] + rng.choice(NUM_LETTERS) + tok[i:]
    if k < 0.7:
        return rng.choice(NUM_PREFIX[:9]) + tok
    if k < 0.8:
        return tok + rng.choice(["e", "E", "e+", "E-1", "x1", "X1F", ".", "..", "_", "'"])
    return num_literal(rng)


NUM_PLACES = ["%s.", "p(%s).", "p(a,%s,b).", "p([%s]).", "p([a|%s]).", "%s::a.", "%s::a; %s::b.", "a :- X = %s.", "q :- Y is %s + 2.",
              "q :- Y is 2 * %s.", "q :- Y is - %s.", "q :- Y is 2 ** %s.", "q :- %s < 3.", "q :- X =:= %s, p(X).", "p(%s) :- q.",
              "%s :- a.", "f(%s)::a.", "a :- \\+ %s.", "query(p(%s)).", "p(- %s).", "p(-%s).", "p(+%s).", "p(%s,%s).", "p(%s %s).", "p(%sa).",
              "p(a%s).", "X%s.", "p(%s", "%s"]

# deterministic grid: every case variant of every base prefix in every placement (always run)
NUM_GRID = [pre + body for pre in ["0x", "0X", "0b", "0B", "0o", "0O", "0'", "0e", "0E"]
            for body in ["1F", "E1", "1", "ff", "FF", "g", "", "yz", "1e5", "1E5", "_1", "0", "a"]] + [
    "1e5", "1E5", "1e+5", "1E-5", "1.5e3", "1.5E3", "1e", "1E", "1e+", "1E-", "1.e5", "1.E5", ".5", ".5e1", ".5E1", "1.", "1..", "1..2", "1.2.3",
    "007", "00", "0.0", "1_000", "_1", "1_", "inf", "Inf", "INF", "nan", "NaN", "NAN", "1inf", "1nan", "1e999", "1E999", "1e-999",
    "10X1F", "0Xyz", "0x1G", "0X1G", "1x1", "1X1", "0xe", "0XE", "0xE+1", "0XE+1", "0x1e5", "0X1E5", "0x.", "0X.", "0x1.", "0X1.8",
    "9" * 4300, "9" * 4301, "9" * 6000, "0x" + "f" * 6000, "0X" + "F" * 40, "1e" + "9" * 400, "0." + "0" * 400 + "1"]
NUM_GRID_PLACES = ["p(%s).", "%s.", "q :- Y is %s + 2.", "%s::a.", "a :- X = %s."]


def soup(rng):
    n = rng.choice([1, 2, 3, 4, 6, 9, 14])
    sep = rng.choice(["", " ", " ", ""])
    s = sep.join(rng.choice(POOL) for _ in range(n))
    return s + rng.choice(["", ".", " .", ".\n", " .\n"])


def _dir_ok(cl):
    """only harmless directives are executed by the grounding attempt"""
    try:
        h = getattr(cl, "head", None)
        if h is not None and h.functor == "_directive":
            b = cl.body
            return b.functor == "use_module" and b.arity == 1 and b.args[0].functor == "library"
    except Exception:
        return False
    return True


def run_text(src):
    """('ok'|'err'|'timeout'|'exc', phase, name, site, msg)"""
    from problog.program import PrologString
    from problog.errors import ProbLogError
    phase = "parse"
    old_out = sys.stdout
    sys.stdout = io.StringIO()
    try:
        with warnings.catch_warnings():
            warnings.simplefilter("ignore")

            def go():
                nonlocal phase
                prog = PrologString(src)
                cls = list(prog)
                if all(_dir_ok(c) for c in cls) and len(cls) <= 60:
                    phase = "prepare"
                    from problog.engine import DefaultEngine
                    eng = DefaultEngine()
                    db = eng.prepare(prog)
                    phase = "ground"
                    eng.ground_all(db)
            pl.with_timeout(go, 1)
        return ("ok", phase, "", "", "")
    except ProbLogError as e:
        return ("err", phase, type(e).__name__, "", "")
    except pl._Timeout:
        return ("timeout", phase, "", "", "")
    except RecursionError:
        return ("exc", phase, "RecursionError", "?", "")
    except Exception as e:  # noqa
        return ("exc", phase, type(e).__name__, exc_site(e), str(e)[:160])
    finally:
        sys.stdout = old_out


def tot_class(r):
    """class of a totality violation: phase, exception, raising function (+ a discriminator where one python
    exception type at one site has unrelated causes)"""
    exc = r[2]
    if exc == "ValueError" and "Exceeds the limit" in r[4] and "integer string conversion" in r[4]:
        # CPython >= 3.11 limit of int()/str() conversion (4300 digits): one root cause, raised wherever the literal is
        # converted (int(token) in the parser, str(Constant) later), so the site is not part of the class
        return "totality-ValueError-int-max-str-digits"
    return "totality-%s-%s-in-%s" % (r[1], exc, r[3].replace(":", "."))


def shrink_text(src, bad, budget=300):
    toks = TOKEN_RE.findall(src)
    # remove chunks, then single tokens
    size = max(1, len(toks) // 2)
    while size >= 1 and budget > 0:
        i = 0
        changed = False
        while i < len(toks) and budget > 0:
            cand = toks[:i] + toks[i + size:]
            budget -= 1
            if cand and bad("".join(cand)):
                toks = cand
                changed = True
            else:
                i += size
        if not changed:
            size //= 2
    return "".join(toks)


def run_totality(ctx):
    n_mut = ctx.n(2000, 120000)
    n_gen = ctx.n(600, 30000)
    n_soup = ctx.n(2000, 120000)
    corpus = corpus_texts()
    rng = ctx.rng
    texts = []
    # always: the corpus itself, unmutated
    for name, t in corpus:
        texts.append(("corpus", t))
    for _ in range(n_mut):
        name, t = rng.choice(corpus)
        texts.append(("mutated-corpus", mutate(rng, t)))
    gen = T.Gen(rng, exotic=0.05)
    for _ in range(n_gen):
        prog = "".join(T.p_stmt(gen.stmt(rng.choice([1, 2, 2, 3]))) + ".\n" for _ in range(rng.choice([1, 2, 4])))
        texts.append(("mutated-generated", mutate(rng, prog) if rng.random() < 0.8 else prog))
    for _ in range(n_soup):
        texts.append(("soup", soup(rng)))
    for lit in NUM_GRID:
        for pl_ in NUM_GRID_PLACES:
            texts.append(("number-grid", pl_.replace("%s", lit)))
    for _ in range(ctx.n(3000, 100000)):
        pl_ = rng.choice(NUM_PLACES)
        texts.append(("number-fuzz", re.sub("%s", lambda m: num_literal(rng), pl_)))
    ctx.log("totality stream: %d texts" % len(texts))
    results = pl.pmap(run_text, [t for _, t in texts], jobs=12, chunksize=100)
    ctx.log("totality stream evaluated")
    seen = collections.Counter()
    stats = collections.Counter()
    for (kind, src), r in zip(texts, results):
        ctx.case(("text", hashlib.sha1(src.encode("utf8", "replace")).hexdigest()), r[0] != "ok" or kind == "corpus",
                 sample={"kind": kind, "text": src[:80], "result": r[0] + ":" + r[2]})
        ctx.count("text_" + kind)
        stats[r[0] + ":" + r[1] + (":" + r[2] if r[2] else "")] += 1
        if r[0] != "exc":
            continue
        if r[1] == "ground":
            # beyond parsing and ClauseDB construction: other properties' territory, recorded only
            ctx.count("ground_phase_exception_%s_%s" % (r[2], r[3]))
            continue
        klass = tot_class(r)
        seen[klass] += 1
        if seen[klass] > 2:
            continue

        def bad(c, r=r):
            q = run_text(c)
            return q[0] == "exc" and tot_class(q) == tot_class(r)
        small = shrink_text(src, bad)
        q = run_text(small)
        if not (q[0] == "exc" and tot_class(q) == tot_class(r)):
            small, q = src, r
        ctx.violation("PrologString(%r) + iteration/prepare/ground raises %s (%s) in phase %s at %s instead of a ProbLogError"
                      % (small[:300], q[2], q[4], q[1], q[3]),
                      {"kind": "totality", "text": small, "exception": q[2], "site": q[3], "phase": q[1], "message": q[4]},
                      klass=klass)
    ctx.cov["totality_stream"] = {"outcomes": dict(stats), "exception_classes": dict(seen),
                                  "label": "SEARCH, not a proof: the tokenizer/labeller of parser.py is not modelled"}


# ------------------------------------------------------------------ hand-picked regression cases (always run)
FIXED_SOURCES = [
    "x :- Y is - (2-3).", "x :- X < -1.", "x :- (a,b),c.", "x :- (a->b),c.", "x :- findall(X,(a;b),L).", "x :- X is (-1)**2.",
    "x :- X is (2^3)*4.", "0.5::(a=b).", "x :- f(not a).", "x :- a \\=@= b.", "x :- X = -[1].", "x :- X is - - 1.", "a :- (b :- c).",
    "x((a:-b)).", "x :- X is 1 - (2 - 3).", "x :- X = 'hello world'.", "x :- X = [].", "x :- X = '[]'.", "x :- X = (+).",
    "x :- \\+ (a,b).", "x :- X is - (1).", "x :- X = (a,b).", "x :- Y = f((a,b)).", "x :- X = \"a b\".", "0.3::a; 0.7::b :- c, \\+ d.",
    "x :- X = [a,b|T].", "x :- X is 2 ** -1.", "x :- (a =< b) => c.", "x :- X = a:b:c.", "x :- X = -(1).", "x :- X = - a.", "x :- X = 1 - -1.",
]
FIXED_TEXTS = ["a <.", "a :- b <.", "x(", "x :- 'abc", "0.5::.", "a :- .", ":- .", "[", "]", "a b.", "p(X) :- X = [1,2|].", "a(1,).",
               "a :- b, .", "x :- avg<X>.", "p :- <X>.", "a < B > c.", "0x.", "1e.", "a.b.c.", "'\\'", "\"\\", "/*", "#!", ".", "..", ". .",
               "a:-b:-c.", "- - a.", "\\+.", "f(,).", "f(|).", "[|].", "[a|].", "[a|b|c].", "(.", ").", "a ::.", ":: a.", "~ a.", "a ~.",
               "X.", "1.", "\"s\".", "[].", "[a].", "(a).", "a , b.", "a ; b.", "a | b.", "a & b.", "not.", "not not a.", "is.", "a is.",
               "is a.", "mod(1,2).", "a mod.", "p(-).", "p(- , -).", "p(:-).", "p((:-)).", ":- :- a.", "a :- :- b.", "a<-b<-c.", "a-->b-->c.",
               "max<X>.", ";:-a.", ":-.", "a:-().", "().", "0.5::().", "influences(X<X>,YY):-a.", "\\+ 1 :- a.", "0.5::not 1.", "p(avg<X>) :- q(X).",
               "f().", "a(()).", "[()].", "a :- b, ().", "a :- findall(1,X,_).", "():-a."]


# Clause objects inside terms are not in the model's AST: judged here only
FIXED_NESTED = ["a :- (b :- c).", "x((a:-b)).", "x :- assertz((a:-b))."]


def run_fixed(ctx):
    stats = collections.Counter()
    for src in FIXED_NESTED:
        r = parse_text(src)
        ctx.case(("fixed", src), True)
        if r[0] != "ok" or len(r[1]) != 1:
            continue
        text = str(r[1][0])
        r2 = parse_text(text + " .")
        if not (r2[0] == "ok" and len(r2[1]) == 1 and T.canon(r2[1][0]) == T.canon(r[1][0])):
            stats["nested_clause_fail"] += 1
            ctx.violation("round trip fails: source %r prints as %r which re-parses to %s" % (src, text, r2[0] + " " + str(r2[1])[:120]),
                          {"kind": "roundtrip", "source": src, "printed": text, "outcome": r2[0]},
                          klass="clause-nested-in-term-printed-without-parentheses")
    for src in FIXED_SOURCES:
        r = parse_text(src)
        ctx.case(("fixed", src), True)
        if r[0] != "ok":
            stats["source_" + r[0]] += 1
            continue
        for o in r[1]:
            text = str(o)
            r2 = parse_text(text + " .")
            okk = r2[0] == "ok" and len(r2[1]) == 1 and T.canon(r2[1][0]) == T.canon(o)
            stats["fixed_ok" if okk else "fixed_fail"] += 1
    for src in FIXED_TEXTS:
        r = run_text(src)
        ctx.case(("fixedtext", src), True)
        stats["text_" + r[0]] += 1
        if r[0] == "exc":
            klass = tot_class(r)
            ctx.violation("PrologString(%r) raises %s (%s) in phase %s at %s instead of a ProbLogError" % (src, r[2], r[4], r[1], r[3]),
                          {"kind": "totality", "text": src, "exception": r[2], "site": r[3], "phase": r[1], "message": r[4]}, klass=klass)
    ctx.cov["fixed_cases"] = dict(stats)


def run_replay(ctx):
    rp = ctx.replay.get("replay", ctx.replay)
    if rp.get("kind") == "totality":
        r = run_text(rp["text"])
        ctx.log("replay totality:", r)
        if r[0] == "exc":
            ctx.violation("replayed: PrologString(%r) raises %s at %s" % (rp["text"][:200], r[2], r[3]), rp,
                          klass=tot_class(r))
    elif rp.get("kind") == "roundtrip":
        r = parse_text(rp["source"])
        ctx.log("replay roundtrip: source parses", r[0])
        if r[0] == "ok":
            for o in r[1]:
                text = str(o)
                r2 = parse_text(text + " .")
                okk = r2[0] == "ok" and len(r2[1]) == 1 and T.canon(r2[1][0]) == T.canon(o)
                ctx.log("printed %r reparse %s" % (text, "equal" if okk else r2[0]))
                if not okk:
                    ctx.violation("replayed: %r prints as %r which does not parse back to an equal term" % (rp["source"], text), rp,
                                  klass=ctx.replay.get("class"))


def run(ctx):
    ctx.cov["rule"] = ("(1) random statements (facts, clauses, directives, annotated disjunctions) over the full operator table of parser.py "
                       "with random nesting, lists, negation, strings, quoted atoms, negative numbers, probabilities; non-trivial = at least 4 "
                       "sub-terms; a statement is judged only when the real parser produces exactly this object from its fully parenthesised "
                       "source (parser image). (2) texts: the test corpus, token-level mutations of corpus files and of generated programs, "
                       "token soups; non-trivial = the text does not parse cleanly. distinct = distinct ASTs / texts")
    ctx.assumptions += [
        "the printer model corresponds to logic.py only as far as the sampled ASTs show (byte-for-byte on every sample)",
        "equality of terms = same python class, same functor string, same operator annotation, same probability, same arguments (no Term.__eq__)",
        "the reference reader is a specification artefact: standard operator-precedence reading with ProbLog's table and its "
        "functional-notation convention; printable statements are additionally checked against the real parser on every sample",
        "totality is searched, not proved (tokenizer and token labelling of parser.py are not modelled)",
    ]
    if ctx.replay:
        run_replay(ctx)
        return
    ctx.prove("C17/Props.v")
    run_fixed(ctx)
    run_asts(ctx)
    run_totality(ctx)
