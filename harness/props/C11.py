"""C11 — the ground-program builder (problog/formula.py: LogicFormula) preserves Boolean meaning.

History = list of builder calls whose arguments are *reference keys*: the n-th
add_atom/add_and/add_or call creates reference node n (key n, -n its negation,
0 = TRUE, None = FALSE).  Three things run on every history:
  * the real LogicFormula (arguments translated through the keys it returned itself),
  * the Coq model coq/theories/C11/ModelBuilder.v (extracted to OCaml),
  * the property's own reference: an unoptimised and-or graph built in Python and
    evaluated by truth tables (stratified least fixpoint for cyclic graphs).
Judge: truth tables of the keys the real builder returned (read off the real node
table) against the reference, after every call, for every key returned so far.
Tie: model vs real builder, exact (keys, node table, index tables, names) -- a
structural difference with equal truth tables is recorded, unequal tables break the tie.
"""
import itertools
import os
import sys

import vf
import pl

META = {
    "id": "C11",
    "level": "proof",
    "technique": "Coq simulation proof (invariant over all call histories and option vectors) for a hand model of "
                 "LogicFormula's node construction + differential correspondence model/implementation/reference by truth tables",
    "design_ref": "DESIGN.md §5 C11",
    "text": "Theorems (all option vectors, all call histories, no bound): the valuations satisfying the model builder's node "
            "equations, read through the keys it returned, are exactly those of the unoptimised reference graph (soundness, "
            "completeness, key stability); the model is tied to problog/formula.py by running bounded-exhaustive and random call "
            "histories through both and comparing returned keys, node tables and truth tables.",
    "note": "Trusted: Coq kernel; extraction + 80-line OCaml driver; hand-written model (correspondence is sampled); "
            "Python reference evaluator (stratified lfp) used by the judge.",
}

N_PROB_IDS = 3          # identifiers 0,1,2 probabilistic; 3 -> probability None (true); 4 -> probability False
ID_TRUE, ID_FALSE = 3, 4


def pclass(ident):
    return "t" if ident == ID_TRUE else "f" if ident == ID_FALSE else "p"


OPT_NAMES = ("auto_compact", "keep_order", "keep_duplicates", "keep_all", "avoid_name_clash", "max_arity")


def opts_dict(o):
    return dict(zip(OPT_NAMES, o))


# ------------------------------------------------------------------ graph semantics (the judge's evaluator)
def analyze(nodes):
    """nodes: list of ('a', id, pc) | ('c', children) | ('d', children), node i at position i-1.
    Returns the strongly connected components in dependency order with a flag per component:
    0 = acyclic single node, 1 = positive cycle, 2 = cycle through negation (no stratified meaning)."""
    n = len(nodes)
    succ = []
    for nd in nodes:
        if nd[0] == "a":
            succ.append(())
        else:
            succ.append(tuple((abs(c), c < 0) for c in nd[1] if c is not None and c != 0))
    index = [0] * (n + 1)
    low = [0] * (n + 1)
    onst = [False] * (n + 1)
    comp = [0] * (n + 1)
    st = []
    sccs = []
    cnt = [0]

    def visit(v):
        cnt[0] += 1
        index[v] = low[v] = cnt[0]
        st.append(v)
        onst[v] = True
        for (w, _) in succ[v - 1]:
            if w > n:
                continue
            if not index[w]:
                visit(w)
                low[v] = min(low[v], low[w])
            elif onst[w]:
                low[v] = min(low[v], index[w])
        if low[v] == index[v]:
            c = []
            while True:
                w = st.pop()
                onst[w] = False
                comp[w] = len(sccs) + 1
                c.append(w)
                if w == v:
                    break
            sccs.append(c)

    for v in range(1, n + 1):
        if not index[v]:
            visit(v)
    flags = []
    for k, c in enumerate(sccs):
        fl = 0
        for v in c:
            for (w, neg) in succ[v - 1]:
                if w <= n and comp[w] == k + 1:
                    fl = max(fl, 2 if neg else 1)
        flags.append(fl)
    return sccs, flags


def kval(vals, k):
    """value of a key: True/False, or None when it has no stratified meaning"""
    if k is None:
        return False
    if k == 0:
        return True
    if abs(k) >= len(vals):
        return None
    x = vals[abs(k)]
    if x is None:
        return None
    return x if k > 0 else (not x)


def eval_node(nd, vals, assign):
    if nd[0] == "a":
        return True if nd[2] == "t" else False if nd[2] == "f" else assign[nd[1]]
    vs = [kval(vals, c) for c in nd[1]]
    if nd[0] == "c":
        if any(x is False for x in vs):
            return False
        return None if any(x is None for x in vs) else True
    if any(x is True for x in vs):
        return True
    return None if any(x is None for x in vs) else False


def evaluate(nodes, sccs, flags, assign):
    vals = [None] * (len(nodes) + 1)
    for c, fl in zip(sccs, flags):
        if fl == 0:
            vals[c[0]] = eval_node(nodes[c[0] - 1], vals, assign)
        elif fl == 1:
            for v in c:
                vals[v] = False
            changed = True
            while changed:
                changed = False
                for v in c:
                    if vals[v] is False and eval_node(nodes[v - 1], vals, assign) is True:
                        vals[v] = True
                        changed = True
            undefined = [v for v in c if vals[v] is False and eval_node(nodes[v - 1], vals, assign) is None]
            if undefined:
                # depends on a node without stratified meaning outside the component
                for v in c:
                    if vals[v] is False:
                        vals[v] = None
        else:
            for v in c:
                vals[v] = None
    return vals


ASSIGNS = [tuple(bool((m >> i) & 1) for i in range(N_PROB_IDS)) + (True, False) for m in range(1 << N_PROB_IDS)]


def tables(nodes, keys):
    """truth table (tuple over ASSIGNS) of every key in `keys` for the graph `nodes`"""
    sccs, flags = analyze(nodes)
    cols = []
    for a in ASSIGNS:
        vals = evaluate(nodes, sccs, flags, a)
        cols.append([kval(vals, k) for k in keys])
    return [tuple(col[i] for col in cols) for i in range(len(keys))], max(flags, default=0)


# ------------------------------------------------------------------ the reference (unoptimised builder)
class Ref:
    def __init__(self):
        self.nodes = []
        self.mut = set()

    def copy(self):
        r = Ref()
        r.nodes = list(self.nodes)
        r.mut = set(self.mut)
        return r

    def valid(self, k):
        return k is None or k == 0 or abs(k) <= len(self.nodes)

    def apply(self, op):
        """returns 'ok' or 'ill' (not a history the property speaks about)"""
        t = op[0]
        if t == "A":
            self.nodes.append(("a", op[1], pclass(op[1])))
        elif t == "C":
            if not all(self.valid(k) for k in op[1]):
                return "ill"
            self.nodes.append(("c", tuple(op[1])))
        elif t == "D":
            if not all(self.valid(k) for k in op[1]):
                return "ill"
            self.nodes.append(("d", tuple(op[1])))
            if not (op[2] and not op[3]):
                self.mut.add(len(self.nodes))
        elif t == "J":
            k, c = op[1], op[2]
            if k is None or not self.valid(c):
                return "ill"
            if k == 0:
                return "ok"
            if k not in self.mut:
                return "ill"
            nd = self.nodes[k - 1]
            self.nodes[k - 1] = ("d", nd[1] + (c,))
        elif t == "N":
            if not self.valid(op[2]):
                return "ill"
        return "ok"


# ------------------------------------------------------------------ the implementation
def name_term(n):
    from problog.logic import Term
    return Term("n%d" % n)


def name_int(t):
    if t is None:
        return None
    s = str(t)
    if s.startswith("\\+"):
        return -int(s[3:])
    return int(s[1:])


def dump_formula(f):
    nodes = []
    for nd in f._nodes:
        tn = type(nd).__name__
        if tn == "atom":
            p = nd.probability
            pc = "t" if p is None else "f" if p is False else "p"
            nodes.append(("a", nd.identifier, pc, name_int(nd.name)))
        elif tn == "conj":
            nodes.append(("c", tuple(nd.children), name_int(nd.name)))
        else:
            nodes.append(("d", tuple(nd.children), name_int(nd.name)))
    return {"nodes": nodes,
            "ia": sorted(f._index_atom.items()),
            "ic": sorted(((tuple(k), v) for k, v in f._index_conj.items()), key=repr),
            "id": sorted(((tuple(k), v) for k, v in f._index_disj.items()), key=repr),
            "names": sorted(((name_int(k), v) for k, v in f._names.get("named", {}).items()), key=repr)}


def sem_nodes(dnodes):
    return [(nd[0], nd[1], nd[2]) if nd[0] == "a" else (nd[0], nd[1]) for nd in dnodes]


PROBS = {0: 0.3, 1: 0.4, 2: 0.6, ID_TRUE: None, ID_FALSE: False}


def run_impl(o, ops, snapshots=True):
    """Runs the history through the real LogicFormula.
    Returns dict(status, rets, rmap, snaps=[(nodes-for-semantics, rmap copy) after each op], final dump)."""
    from problog.formula import LogicFormula
    od = opts_dict(o)
    f = LogicFormula(**od)
    rmap = []
    rets = []
    snaps = {}
    status = ("ok", None)

    def R(k):
        if k is None or k == 0:
            return k
        if abs(k) > len(rmap):
            raise KeyError(k)
        ik = rmap[abs(k) - 1]
        return ik if k > 0 else f.negate(ik)

    for i, op in enumerate(ops):
        t = op[0]
        try:
            if t == "A":
                nm = None if op[2] is None else name_term(op[2])
                k = f.add_atom(op[1], PROBS[op[1]], name=nm)
                rmap.append(k)
                rets.append(("K", k))
            elif t == "C":
                nm = None if op[2] is None else name_term(op[2])
                k = f.add_and([R(c) for c in op[1]], name=nm, compact=op[3])
                rmap.append(k)
                rets.append(("K", k))
            elif t == "D":
                nm = None if op[4] is None else name_term(op[4])
                k = f.add_or([R(c) for c in op[1]], readonly=op[2], placeholder=op[3], name=nm, compact=op[5])
                rmap.append(k)
                rets.append(("K", k))
            elif t == "J":
                ik = R(op[1])
                r = f.add_disjunct(ik, R(op[2]))
                rets.append(("J", r, ik))
            elif t == "N":
                f.add_name(name_term(op[1]), R(op[2]), keep_name=op[3])
                rets.append(("N",))
        except KeyError:
            status = ("ill", i)
            break
        except Exception as e:  # the builder raised
            status = ("raise", i, type(e).__name__)
            break
        if snapshots or i == len(ops) - 1:
            snaps[i] = (sem_nodes(dump_formula(f)["nodes"]), list(rmap))
    return {"status": status, "rets": rets, "rmap": rmap, "snaps": snaps, "done": len(rets), "final": dump_formula(f)}


# ------------------------------------------------------------------ the model (extracted OCaml oracle)
EXTRACT_V = """From Coq Require Import ZArith List Bool Extraction ExtrOcamlBasic.
From PL.C11 Require Import ModelBuilder.
Extraction "oracle.ml" run_trace init.
"""

DRIVER_ML = r"""
open Oracle
let rec pos_of_int n = if n = 1 then XH else if n land 1 = 0 then XO (pos_of_int (n lsr 1)) else XI (pos_of_int (n lsr 1))
let z_of_int n = if n = 0 then Z0 else if n > 0 then Zpos (pos_of_int n) else Zneg (pos_of_int (-n))
let rec int_of_pos = function XH -> 1 | XO p -> 2 * int_of_pos p | XI p -> 2 * int_of_pos p + 1
let int_of_z = function Z0 -> 0 | Zpos p -> int_of_pos p | Zneg p -> - (int_of_pos p)
let rec nat_of_int n = if n <= 0 then O else S (nat_of_int (n - 1))
let rec int_of_nat = function O -> 0 | S n -> 1 + int_of_nat n
let key_of s = if s = "F" then None else Some (z_of_int (int_of_string s))
let str_key = function None -> "F" | Some z -> string_of_int (int_of_z z)
let nm_of s = if s = "-" then None else Some (z_of_int (int_of_string s))
let str_nm = function None -> "-" | Some z -> string_of_int (int_of_z z)
let cp_of s = if s = "-" then None else Some (s = "1")
let b s = (s = "1")
let words s = List.filter (fun x -> x <> "") (String.split_on_char ' ' s)
let pcl z = match int_of_z z with 3 -> PTrue | 4 -> PFalse | _ -> PProb
let parse_op s =
  match words s with
  | "A" :: id :: nm :: [] -> OAtom (z_of_int (int_of_string id), nm_of nm)
  | "C" :: nm :: cp :: ks -> OAnd (List.map key_of ks, nm_of nm, cp_of cp)
  | "D" :: ro :: ph :: nm :: cp :: ks -> OOr (List.map key_of ks, b ro, b ph, nm_of nm, cp_of cp)
  | "J" :: k :: c :: [] -> ODisjunct (key_of k, key_of c)
  | "N" :: nm :: k :: keep :: [] -> OName (z_of_int (int_of_string nm), key_of k, b keep)
  | _ -> failwith ("bad op: " ^ s)
let str_keys ks = String.concat "," (List.map str_key ks)
let str_node = function
  | NAtom (id, pc, nm) -> Printf.sprintf "a %d %s %s" (int_of_z id) (match pc with PProb -> "p" | PTrue -> "t" | PFalse -> "f") (str_nm nm)
  | NConj (cs, nm) -> Printf.sprintf "c %s %s" (str_nm nm) (str_keys cs)
  | NDisj (cs, nm) -> Printf.sprintf "d %s %s" (str_nm nm) (str_keys cs)
let str_ret = function
  | RKey k -> "K" ^ str_key k
  | RDisjunct (c, d) -> "J" ^ str_key c ^ "/" ^ str_key d
  | RNone -> "N"
let () =
  try
    while true do
      let line = input_line stdin in
      match String.split_on_char ';' line with
      | [] -> print_endline "?"
      | o :: ops ->
        let o = (match words o with
          | [ac; ko; kd; ka; anc; ma] -> { auto_compact = b ac; keep_order = b ko; keep_duplicates = b kd; keep_all = b ka;
                                           avoid_name_clash = b anc; max_arity = nat_of_int (int_of_string ma) }
          | _ -> failwith "bad opts") in
        let ops = List.map parse_op (List.filter (fun x -> String.trim x <> "") ops) in
        let ((rets, r), st) = run_trace o pcl init ops [] in
        let s = r.impl in
        Printf.printf "%d|%s|%s|%s|%s|%s|%s|%s\n" (int_of_nat st)
          (String.concat " " (List.map str_ret rets))
          (String.concat ";" (List.map str_node s.nodes))
          (str_keys r.rmap)
          (String.concat " " (List.map (fun (i, j) -> Printf.sprintf "%d:%d" (int_of_z i) (int_of_z j)) s.idx_atom))
          (String.concat " " (List.map (fun (c, j) -> Printf.sprintf "%s:%d" (str_keys c) (int_of_z j)) s.idx_conj))
          (String.concat " " (List.map (fun (c, j) -> Printf.sprintf "%s:%d" (str_keys c) (int_of_z j)) s.idx_disj))
          (String.concat " " (List.map (fun (n, k) -> Printf.sprintf "%d=%s" (int_of_z n) (str_key k)) s.names))
    done
  with End_of_file -> ()
"""


def skey(k):
    return "F" if k is None else str(k)


def pkey(s):
    return None if s == "F" else int(s)


def pkeys(s):
    return tuple(pkey(x) for x in s.split(",")) if s else ()


def snm(n):
    return "-" if n is None else str(n)


def scp(c):
    return "-" if c is None else "1" if c else "0"


def op_line(op):
    t = op[0]
    if t == "A":
        return "A %d %s" % (op[1], snm(op[2]))
    if t == "C":
        return "C %s %s %s" % (snm(op[2]), scp(op[3]), " ".join(skey(k) for k in op[1]))
    if t == "D":
        return "D %d %d %s %s %s" % (op[2], op[3], snm(op[4]), scp(op[5]), " ".join(skey(k) for k in op[1]))
    if t == "J":
        return "J %s %s" % (skey(op[1]), skey(op[2]))
    return "N %d %s %d" % (op[1], skey(op[2]), op[3])


def request(o, ops):
    return "%d %d %d %d %d %d;" % tuple(int(x) for x in o) + ";".join(op_line(op) for op in ops)


def parse_model(line):
    st, rets, nodes, rmap, ia, ic, idd, names = line.split("|")
    out = {"status": int(st)}
    rr = []
    for r in rets.split():
        if r[0] == "K":
            rr.append(("K", pkey(r[1:])))
        elif r[0] == "J":
            c, d = r[1:].split("/")
            rr.append(("J", pkey(c), pkey(d)))
        else:
            rr.append(("N",))
    out["rets"] = rr
    nn = []
    for s in (nodes.split(";") if nodes else []):
        w = s.split(" ")
        if w[0] == "a":
            nn.append(("a", int(w[1]), w[2], None if w[3] == "-" else int(w[3])))
        else:
            nn.append((w[0], pkeys(w[2]) if len(w) > 2 else (), None if w[1] == "-" else int(w[1])))
    out["nodes"] = nn
    out["rmap"] = list(pkeys(rmap))
    out["ia"] = sorted(tuple(int(x) for x in e.split(":")) for e in ia.split())
    out["ic"] = sorted(((pkeys(e.rsplit(":", 1)[0]), int(e.rsplit(":", 1)[1])) for e in ic.split(" ") if e), key=repr)
    out["id"] = sorted(((pkeys(e.rsplit(":", 1)[0]), int(e.rsplit(":", 1)[1])) for e in idd.split(" ") if e), key=repr)
    out["names"] = sorted(((int(e.split("=")[0]), pkey(e.split("=")[1])) for e in names.split()), key=repr)
    return out


# ------------------------------------------------------------------ judging one history
def judge(o, ops, all_steps=True):
    """Runs implementation + reference.  Returns (impl_result, bad, info); bad lists
    ('meaning', step, refnode, implkey, got, want) entries first, then ('return', step, got, want).
    all_steps=False judges only the state after the last call (used when every prefix is a history of its own)."""
    res = run_impl(o, ops, snapshots=all_steps)
    ref = Ref()
    bad, badret = [], []
    info = {"cyclic": 0, "unstrat": False, "ill": False, "raised": None}
    for i, op in enumerate(ops):
        r = ref.apply(op)
        if r == "ill":
            info["ill"] = True
            break
        if i >= res["done"]:
            # the implementation raised on a history the reference accepts
            st = res["status"]
            info["raised"] = st[2] if st[0] == "raise" else st[0]
            break
        if op[0] == "J":
            rv = res["rets"][i]
            if rv[1] != rv[2]:
                badret.append(("return", i, rv[1], rv[2]))
        if i not in res["snaps"]:
            continue
        inodes, rmap = res["snaps"][i]
        rkeys_ = list(range(1, len(ref.nodes) + 1))
        want, fl = tables(ref.nodes, rkeys_)
        info["cyclic"] = max(info["cyclic"], fl)
        got, _ = tables(inodes, rmap)
        for j, (g, w) in enumerate(zip(got, want)):
            if None in w:
                info["unstrat"] = True
                continue
            if g != w:
                bad.append(("meaning", i, j + 1, rmap[j], g, w))
        if bad:
            break
    return res, bad + badret[:1], info


def classify(ops, bad):
    b = bad[0]
    if b[0] == "return" and b[2] is None and b[3] is not None:
        return "add-disjunct-returns-none"
    return None


def shrink(o, ops, pred):
    """drop calls (renumbering reference keys) while pred stays true"""
    def drop(ops, i):
        # number of creating ops before/at i
        creates = [op[0] in "ACD" for op in ops]
        if creates[i]:
            idx = sum(creates[:i + 1])   # reference node removed
        else:
            idx = None
        out = []

        def ren(k):
            if k is None or k == 0 or idx is None:
                return k
            if abs(k) == idx:
                raise ValueError
            if abs(k) > idx:
                return k - 1 if k > 0 else k + 1
            return k
        try:
            for j, op in enumerate(ops):
                if j == i:
                    continue
                t = op[0]
                if t == "A":
                    out.append(op)
                elif t == "C":
                    out.append(("C", tuple(ren(k) for k in op[1])) + tuple(op[2:]))
                elif t == "D":
                    out.append(("D", tuple(ren(k) for k in op[1])) + tuple(op[2:]))
                elif t == "J":
                    out.append(("J", ren(op[1]), ren(op[2])))
                else:
                    out.append(("N", op[1], ren(op[2]), op[3]))
        except ValueError:
            return None
        return out
    ops = list(ops)
    i = len(ops) - 1
    while i >= 0:
        cand = drop(ops, i)
        if cand is not None and cand and pred(cand):
            ops = cand
        i -= 1
    return ops


# ------------------------------------------------------------------ generators
def literals(n):
    return [None, 0] + [s * k for k in range(1, n + 1) for s in (1, -1)]


def menu(n, mut, max_len, with_atoms):
    """all single calls available when n reference nodes exist (no names, compact=None)"""
    lits = literals(n)
    out = []
    if with_atoms:
        for ident in (0, 2, ID_TRUE, ID_FALSE):
            out.append(("A", ident, None))
    lists = []
    for ln in range(1, max_len + 1):
        lists += list(itertools.product(lits, repeat=ln))
    for cs in lists:
        out.append(("C", cs, None, None))
        out.append(("D", cs, True, False, None, None))
        out.append(("D", cs, False, False, None, None))
    out.append(("D", (), True, True, None, None))
    for m in mut:
        for c in lits:
            out.append(("J", m, c))
    return out


def exhaustive(prefix, depth, max_len, with_atoms):
    """all histories prefix + `depth` further calls"""
    def rec(ops, n, mut, d):
        yield ops
        if d == 0:
            return
        for op in menu(n, mut, max_len, with_atoms):
            n2, mut2 = n, mut
            if op[0] in "ACD":
                n2 = n + 1
                if op[0] == "D" and not (op[2] and not op[3]):
                    mut2 = mut + (n2,)
            yield from rec(ops + [op], n2, mut2, d - 1)
    n0 = sum(1 for op in prefix if op[0] in "ACD")
    return rec(list(prefix), n0, (), depth)


def random_history(rng, length):
    ops = []
    n = 0
    mut = []
    ref = Ref()
    named = rng.random() < 0.5
    while len(ops) < length:
        lits = literals(n)

        def lit():
            # favour recent keys and mutable nodes
            r = rng.random()
            if n and r < 0.75:
                k = rng.choice(mut) if (mut and rng.random() < 0.3) else rng.randint(max(1, n - 6), n)
                return k if rng.random() < 0.7 else -k
            return rng.choice(lits)

        def nm():
            return rng.randint(1, 3) if named and rng.random() < 0.4 else None

        def cp():
            r = rng.random()
            return None if r < 0.8 else (r < 0.9)
        r = rng.random()
        if n < 2 or r < 0.15:
            op = ("A", rng.choice([0, 1, 2, 0, 1, 2, ID_TRUE, ID_FALSE]), nm())
        elif r < 0.40:
            op = ("C", tuple(lit() for _ in range(rng.choice([1, 2, 2, 3, 4]))), nm(), cp())
        elif r < 0.58:
            op = ("D", tuple(lit() for _ in range(rng.choice([1, 2, 2, 3, 4]))), True, False, nm(), cp())
        elif r < 0.72:
            if rng.random() < 0.3:
                op = ("D", (), rng.random() < 0.5, True, nm(), cp())
            else:
                op = ("D", tuple(lit() for _ in range(rng.choice([1, 1, 2, 3]))), False, rng.random() < 0.2, nm(), cp())
        elif r < 0.93 and mut:
            op = ("J", rng.choice(mut + [mut[-1]]), lit())
        elif named:
            op = ("N", rng.randint(1, 3), lit(), rng.random() < 0.3)
        else:
            continue
        if op[0] == "J":
            # keep the reference graph stratified (no cycle through negation): otherwise no meaning to compare
            trial = ref.copy()
            trial.apply(op)
            _, flags = analyze(trial.nodes)
            if max(flags, default=0) == 2:
                continue
        ref.apply(op)
        ops.append(op)
        if op[0] in "ACD":
            n += 1
            if op[0] == "D" and not (op[2] and not op[3]):
                mut.append(n)
    return ops


def random_opts(rng):
    return (rng.random() < 0.7, rng.random() < 0.3, rng.random() < 0.25, rng.random() < 0.2, rng.random() < 0.4,
            rng.choice([0, 0, 0, 1, 2, 3]))


OPT_VECTORS = [
    (True, False, False, False, False, 0),    # defaults of LogicFormula
    (False, False, False, False, False, 0),   # no compaction
    (True, True, True, False, False, 0),      # keep_order + keep_duplicates
    (True, False, False, True, False, 0),     # keep_all
    (True, False, False, False, True, 1),     # max_arity 1 + avoid_name_clash
    (True, False, False, False, False, 2),    # max_arity 2
    (False, False, True, True, True, 2),
    (True, False, True, False, False, 1),
]


# ------------------------------------------------------------------ worker (module level for pl.pmap)
def work(item):
    """judge + tie for one history; returns a small summary (keeps pipe traffic low)"""
    o, ops, all_steps, line, want_sample = item
    try:
        res, bad, info = judge(o, ops, all_steps)
    except Exception as e:  # evaluator trouble is a harness bug, surface it
        return {"o": o, "ops": ops, "crash": repr(e)}
    out = {"status": res["status"], "rets": res["rets"], "rmap": res["rmap"], "final": res["final"]}
    try:
        verdict, why = compare_model(out, parse_model(line))
    except Exception as e:
        verdict, why = "unparsed", "cannot parse oracle answer %r (%r)" % (line[:200], e)
    summ = {"o": o, "ops": ops, "bad": bad, "info": info, "verdict": verdict, "why": why,
            "nnodes": len(res["final"]["nodes"])}
    if want_sample:
        summ["sample"] = {"opts": opts_dict(o), "ops": ops, "returned": res["rmap"], "nodes": res["final"]["nodes"]}
    return summ


def compare_model(out, model):
    """exact tie: 'same' | 'structural' (differs, equal truth tables) | 'different'"""
    st = out["status"]
    mst = {0: "ok", 1: "ill", 2: "raise"}[model["status"]]
    if st[0] != mst:
        return "different", "status impl=%r model=%s" % (st, mst)
    irets = [(r[0], r[1]) if r[0] == "K" else r for r in out["rets"]]
    same_rets = len(irets) == len(model["rets"])
    if same_rets:
        for a, b in zip(irets, model["rets"]):
            if a[0] != b[0]:
                same_rets = False
            elif a[0] == "K" and a[1] != b[1]:
                same_rets = False
            elif a[0] == "J":
                # a = (J, returned, key) ; b = (J, code, doc): accept the code as it is or as documented
                if not (a[1] == b[1] or a[1] == b[2]):
                    same_rets = False
    f = out["final"]
    exact = (same_rets and f["nodes"] == model["nodes"] and f["ia"] == model["ia"] and f["ic"] == model["ic"]
             and f["id"] == model["id"] and f["names"] == model["names"] and out["rmap"] == model["rmap"])
    if exact:
        return "same", ""
    if len(out["rmap"]) != len(model["rmap"]):
        return "different", "number of returned keys"
    ta, _ = tables(sem_nodes(f["nodes"]), out["rmap"])
    tb, _ = tables(sem_nodes(model["nodes"]), model["rmap"])
    if ta == tb and same_rets:
        return "structural", "node tables differ, truth tables agree"
    return "different", "truth tables / returns differ"


def process(ctx, exe, items, label, jobs=8):
    lines = ctx.oracle(exe, [request(it[0], it[1]) for it in items])
    nsamp = len(ctx.cov["samples"])
    outs = pl.pmap(work, [(it[0], it[1], it[2], line, (k % 997 == 0 and nsamp < 8)) for k, (it, line) in enumerate(zip(items, lines))],
                   jobs=jobs, chunksize=256)
    reported = getattr(ctx, "_c11_reported", set())
    ctx._c11_reported = reported
    for out in outs:
        o, ops = out["o"], out["ops"]
        if "crash" in out:
            ctx.broken.append("harness:evaluator crashed on %r: %s" % (ops, out["crash"]))
            continue
        info = out["info"]
        if info["ill"]:
            ctx.count(label + "_illformed")
        nontrivial = (out["nnodes"] >= 3 and any(op[0] in "CD" for op in ops))
        ctx.case((o, tuple(ops)), nontrivial and not info["ill"], sample=out.get("sample"))
        ctx.count(label)
        ctx.count(label + "_len", len(ops))
        if info["cyclic"] == 1:
            ctx.count(label + "_cyclic_positive")
        if info["cyclic"] == 2 or info["unstrat"]:
            ctx.count(label + "_cycle_through_negation(meaning not judged)")
        if info["raised"]:
            ctx.count(label + "_impl_raised_" + str(info["raised"]))
        if any(op[0] == "J" for op in ops):
            ctx.count(label + "_with_add_disjunct")
        # ---- judge
        if out["bad"]:
            klass = classify(ops, out["bad"])
            tag = (klass, out["bad"][0][0])
            ctx.count(label + "_violations_" + str(klass))
            if tag not in reported or klass is None and len([t for t in reported if t[0] is None]) < 3:
                reported.add(tag if klass is not None else (None, len(reported)))
                kind = out["bad"][0][0]

                def still(c, kind=kind, klass=klass):
                    _, b, i = judge(o, c)
                    return bool(b) and not i["ill"] and b[0][0] == kind and classify(c, b) == klass
                small = shrink(o, ops, still)
                _, b2, _ = judge(o, small)
                b = b2[0]
                if b[0] == "return":
                    what = ("add_disjunct returned %r instead of the key %r (history %r, options %r)"
                            % (b[2], b[3], small, opts_dict(o)))
                else:
                    what = ("key %r returned for call #%d means %r but the call sequence describes %r (truth tables over atoms "
                            "0..2, after call #%d; history %r, options %r)" % (b[3], b[2], b[4], b[5], b[1], small, opts_dict(o)))
                ctx.violation(what, {"opts": opts_dict(o), "ops": small, "verdict": list(b)}, klass=klass)
        # ---- tie
        verdict, why = out["verdict"], out["why"]
        ctx.count(label + "_model_" + verdict)
        if verdict in ("different", "unparsed"):
            if len([b for b in ctx.broken if b.startswith("correspondence:")]) < 5:
                ctx.broken.append("correspondence:ModelBuilder vs LogicFormula (%s) on opts=%r ops=%r" % (why, opts_dict(o), ops))


def run(ctx):
    ctx.cov["rule"] = ("(1) bounded-exhaustive ('exh2'): after the prefix add_atom(0), add_atom(1) every sequence of <=2 further calls "
                       "(add_atom of ids 0,2 and of the probability-None / probability-False ids, add_and, add_or "
                       "readonly/mutable/placeholder with every child list of length 1..2 over all signed keys returned so far + "
                       "TRUE + FALSE, add_disjunct of every literal on every mutable node); quick: default options, thorough: 8 "
                       "option vectors; ('exh3') depth 3 with single-child lists, quick: one vector chosen by the seed, thorough: 4; "
                       "('exh3w', thorough only) one atom + 3 calls with child lists of length <=2, default options, every 8th history; "
                       "(2) 'rand': random histories of 5..40 calls with random option vectors (max_arity 0..3), names 1..3, "
                       "add_name, per-call compact flags, identifiers with probability None/False, stratified cycles through "
                       "mutable nodes. Exhaustive sets are judged in the final state (every prefix is itself enumerated), random "
                       "histories after every call. Non-trivial = builds >=3 nodes with a compound call; distinct = distinct "
                       "(options, history).")
    ctx.assumptions += [
        "hand-written Gallina model corresponds to problog/formula.py only as far as the explored histories show",
        "meaning of a cyclic graph = stratified least fixpoint; histories with a cycle through negation are run through "
        "the tie but their meaning is not judged",
        "one probability per atom identifier; group/ConstraintAD, semiring weight propagation and labels other than 'named' are outside the model",
        "add_disjunct on a key for which a mutable add_or returned FALSE raises ValueError (documented); counted, not judged",
    ]
    ctx.prove("C11/Props.v")
    ctx.log("proofs checked: %d/%d" % (ctx.cov["discharged"], ctx.cov["obligations"]))
    try:
        exe = ctx.ocaml_oracle("c11", EXTRACT_V, DRIVER_ML)
    except RuntimeError as e:
        ctx.broken.append("correspondence:ModelBuilder does not extract/build")
        ctx.notes.append(str(e))
        return

    if ctx.replay:
        rp = ctx.replay.get("replay", ctx.replay)
        o = tuple(rp["opts"][k] for k in OPT_NAMES)
        ops = [tuple(tuple(x) if isinstance(x, list) else x for x in op) for op in rp["ops"]]
        process(ctx, exe, [(o, ops, True)], "replay", jobs=1)
        return

    def stream(gen, label, batch=40000):
        buf, total = [], 0
        for it in gen:
            buf.append(it)
            if len(buf) >= batch:
                process(ctx, exe, buf, label)
                total += len(buf)
                buf = []
        if buf:
            process(ctx, exe, buf, label)
            total += len(buf)
        ctx.log("%s: %d histories" % (label, total))

    prefix = [("A", 0, None), ("A", 1, None)]
    thorough = ctx.tier == "thorough"
    # quick: depth 2 for the default vector, depth 3 for one other vector (rotating with the seed); thorough: all of them
    vecs = OPT_VECTORS if thorough else [OPT_VECTORS[0]]
    stream(((o, ops, False) for o in vecs for ops in exhaustive(prefix, 2, 2, True)), "exh2")
    vecs3 = OPT_VECTORS[:4] if thorough else [OPT_VECTORS[1 + ctx.seed % (len(OPT_VECTORS) - 1)]]
    stream(((o, ops, False) for o in vecs3 for ops in exhaustive(prefix, 3, 1, False)), "exh3")
    if thorough:
        # one atom, three further calls with child lists of length <= 2, default options
        # (every 8th history of the 1.68 M, offset by the seed: the parent process is the bottleneck)
        for o in OPT_VECTORS[:1]:
            stream(((o, ops, False) for k, ops in enumerate(exhaustive([("A", 0, None)], 3, 2, False)) if (k + ctx.seed) % 8 == 0), "exh3w")

    def rand():
        for _ in range(ctx.n(2000, 25000)):
            o = random_opts(ctx.rng)
            yield (o, random_history(ctx.rng, ctx.rng.choice([5, 8, 12, 20, 30, 40])), True)
    stream(rand(), "rand")
    if thorough:
        ctx.coqchk("PL.C11.Props")
