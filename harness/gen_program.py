"""Structured generator of ProbLog programs in the C01 fragment (DESIGN 1.3).

Everything is derived from one `random.Random`.  A program is produced once and
rendered twice: as ProbLog source text (`Prog.text()`) and as the request
s-expression of the Coq-extracted semantics oracle (`Prog.sexp()`).

Representation (plain tuples, JSON-able through Prog.to_json()):
    term  = ("v", i) | ("c", name)
    atom  = (pred_name, (term, ...))
    lit   = (positive: bool, atom)
    stmt  = ("rule", head_atom, [lit...])
          | ("ad", [(prob_str, atom), ...], [lit...])       # prob_str is a decimal string such as "0.3"
          | ("query", atom)
          | ("evid", atom, bool)

Public API (see notes/Sem.md):
    gen_program(rng, mode=None, max_choices=None)  -> Prog    predicate-level stratified by construction
    gen_negcycle(rng)                              -> Prog    base program + negative-loop gadgets (C02 stream)
    shrink(prog, bad)                              -> Prog    delta debugging on statements / literals / heads
    permute_statements(prog, rng), permute_bodies(prog, rng) -> Prog   (C07)
    Prog.text(), Prog.sexp(), Prog.decode_atom(s), Prog.features(), Prog.to_json(), Prog.from_json(d)
    estimate_choices(prog) -> number of live ground AD instances (the oracle's enumeration is 2^that or worse)
"""
from fractions import Fraction
import itertools

VARNAMES = ["X", "Y", "Z", "W", "V", "U"]
PROBS = ["0.1", "0.2", "0.3", "0.4", "0.5", "0.6", "0.7", "0.8", "0.9", "0.25", "0.05", "0.15", "0.35"]


def V(i):
    return ("v", i)


def C(name):
    return ("c", name)


def atom(pred, *args):
    return (pred, tuple(args))


def atom_vars(a):
    return [t[1] for t in a[1] if t[0] == "v"]


def atom_consts(a):
    return [t[1] for t in a[1] if t[0] == "c"]


def term_text(t):
    return VARNAMES[t[1]] if t[0] == "v" else t[1]


def atom_text(a):
    if not a[1]:
        return a[0]
    return "%s(%s)" % (a[0], ",".join(term_text(t) for t in a[1]))


def lit_text(l):
    return atom_text(l[1]) if l[0] else "\\+" + atom_text(l[1])


def stmt_atoms(s):
    if s[0] == "rule":
        return [s[1]] + [l[1] for l in s[2]]
    if s[0] == "ad":
        return [h[1] for h in s[1]] + [l[1] for l in s[2]]
    return [s[1]]


def stmt_heads(s):
    if s[0] == "rule":
        return [s[1]]
    if s[0] == "ad":
        return [h[1] for h in s[1]]
    return []


def stmt_body(s):
    return s[2] if s[0] in ("rule", "ad") else []


def stmt_text(s):
    if s[0] == "rule":
        if not s[2]:
            return "%s." % atom_text(s[1])
        return "%s :- %s." % (atom_text(s[1]), ", ".join(lit_text(l) for l in s[2]))
    if s[0] == "ad":
        heads = "; ".join("%s::%s" % (p, atom_text(a)) for p, a in s[1])
        if not s[2]:
            return heads + "."
        return "%s :- %s." % (heads, ", ".join(lit_text(l) for l in s[2]))
    if s[0] == "query":
        return "query(%s)." % atom_text(s[1])
    if s[0] == "evid":
        return "evidence(%s,%s)." % (atom_text(s[1]), "true" if s[2] else "false")
    raise ValueError(s)


def _tuplify(x):
    if isinstance(x, list):
        return tuple(_tuplify(y) for y in x)
    return x


class Prog:
    def __init__(self, stmts, meta=None):
        self.stmts = list(stmts)
        self.meta = dict(meta or {})
        self._intern = None

    # ------------------------------------------------------------ rendering
    def text(self):
        return "\n".join(stmt_text(s) for s in self.stmts) + "\n"

    def _tables(self):
        if self._intern is None:
            preds, consts = {}, {}
            for s in self.stmts:
                for a in stmt_atoms(s):
                    key = (a[0], len(a[1]))
                    if key not in preds:
                        preds[key] = len(preds) + 1
                    for c in atom_consts(a):
                        if c not in consts:
                            consts[c] = len(consts) + 1
            self._intern = (preds, consts, {v: k for k, v in preds.items()}, {v: k for k, v in consts.items()})
        return self._intern

    def sexp(self):
        preds, consts, _, _ = self._tables()

        def tm(t):
            return "v%d" % t[1] if t[0] == "v" else "c%d" % consts[t[1]]

        def at(a):
            return "(%d%s)" % (preds[(a[0], len(a[1]))], "".join(" " + tm(t) for t in a[1]))

        def li(l):
            return "(%s %s)" % ("p" if l[0] else "n", at(l[1]))

        out = []
        for s in self.stmts:
            if s[0] == "rule":
                out.append("(r %s (%s))" % (at(s[1]), " ".join(li(l) for l in s[2])))
            elif s[0] == "ad":
                hs = []
                for p, a in s[1]:
                    f = Fraction(p)
                    hs.append("(%d %d %s)" % (f.numerator, f.denominator, at(a)))
                out.append("(ad (%s) (%s))" % (" ".join(hs), " ".join(li(l) for l in s[2])))
            elif s[0] == "query":
                out.append("(q %s)" % at(s[1]))
            else:
                out.append("(e %s %d)" % (at(s[1]), 1 if s[2] else 0))
        return "(" + " ".join(out) + ")"

    def decode_atom(self, s):
        """'3:1,2' (oracle output) -> 'p(a,b)' (str() of the ProbLog term)."""
        _, _, rp, rc = self._tables()
        p, _, args = s.partition(":")
        name = rp[int(p)][0]
        if not args:
            return name
        return "%s(%s)" % (name, ",".join(rc[int(c)] for c in args.split(",")))

    # ------------------------------------------------------------ misc
    def with_stmts(self, stmts):
        return Prog(stmts, self.meta)

    def to_json(self):
        return {"stmts": self.stmts, "meta": self.meta, "text": self.text()}

    @staticmethod
    def from_json(d):
        return Prog([_tuplify(s) for s in d["stmts"]], d.get("meta"))

    def key(self):
        return self.text()

    def clauses(self):
        return [s for s in self.stmts if s[0] in ("rule", "ad")]

    def queries(self):
        return [s[1] for s in self.stmts if s[0] == "query"]

    def evidence(self):
        return [(s[1], s[2]) for s in self.stmts if s[0] == "evid"]

    def constants(self):
        seen = []
        for s in self.stmts:
            for a in stmt_atoms(s):
                for c in atom_consts(a):
                    if c not in seen:
                        seen.append(c)
        return seen

    def pred_graph(self):
        """predicate-level dependency edges (head_pred, body_pred, negative?)"""
        e = set()
        for s in self.clauses():
            for h in stmt_heads(s):
                for pos, a in stmt_body(s):
                    e.add(((h[0], len(h[1])), (a[0], len(a[1])), not pos))
        return e

    def features(self):
        cl = self.clauses()
        edges = self.pred_graph()
        succ = {}
        for h, b, _ in edges:
            succ.setdefault(h, set()).add(b)

        def reaches(x, y):
            seen, todo = set(), [x]
            while todo:
                u = todo.pop()
                for w in succ.get(u, ()):
                    if w == y:
                        return True
                    if w not in seen:
                        seen.add(w)
                        todo.append(w)
            return False

        rec = any(reaches(h, h) for h in succ)
        heads_derived = set()
        for s in cl:
            if s[0] == "rule" and s[2]:
                heads_derived.add((s[1][0], len(s[1][1])))
        f = {
            "ad_multi": any(s[0] == "ad" and len(s[1]) > 1 for s in cl),
            "ad_body": any(s[0] == "ad" and s[2] for s in cl),
            "ad_multi_body": any(s[0] == "ad" and len(s[1]) > 1 and s[2] for s in cl),
            "ad_bodyvar_not_in_head": any(
                s[0] == "ad" and set(v for l in s[2] for v in atom_vars(l[1])) - set(v for h in s[1] for v in atom_vars(h[1]))
                for s in cl),
            "negation": any(not l[0] for s in cl for l in s[2]),
            "recursion": rec,
            "first_order": any(atom_vars(a) for s in self.stmts for a in stmt_atoms(s)),
            "nonground_query": any(atom_vars(a) for a in self.queries()),
            "evidence": bool(self.evidence()),
            "evidence_neg": any(not v for _, v in self.evidence()),
            "evidence_derived": any((a[0], len(a[1])) in heads_derived for a, _ in self.evidence()),
            "neg_pred_cycle": any(neg and (b == h or reaches(b, h)) for h, b, neg in edges),
            "repeated_var_call": any(len(atom_vars(l[1])) != len(set(atom_vars(l[1]))) for s in cl for l in s[2]),
        }
        return f


# ---------------------------------------------------------------- python-side sizing (NOT the reference semantics)
def _ground_clauses(prog, cap=4096):
    dom = prog.constants()
    out = []
    for s in prog.clauses():
        vs = []
        for a in stmt_atoms(s):
            for v in atom_vars(a):
                if v not in vs:
                    vs.append(v)
        n = len(dom) ** len(vs) if vs else 1
        if n > cap:
            return None
        for vals in itertools.product(dom, repeat=len(vs)):
            sg = dict(zip(vs, vals))

            def g(a):
                return (a[0], tuple(sg[t[1]] if t[0] == "v" else t[1] for t in a[1]))
            out.append((s[0], [g(h) for h in stmt_heads(s)], [(l[0], g(l[1])) for l in stmt_body(s)]))
    return out


def possibly_true(prog):
    """(ground clauses, set of ground atoms that are true in some world when negation is ignored)"""
    gcs = _ground_clauses(prog)
    if gcs is None:
        return None, None
    pt = set()
    changed = True
    while changed:
        changed = False
        for _, hs, body in gcs:
            if all((not pos) or a in pt for pos, a in body):
                for h in hs:
                    if h not in pt:
                        pt.add(h)
                        changed = True
    return gcs, pt


def estimate_choices(prog):
    """Number of ground AD instances whose positive body atoms are all possibly true
    (upper bound on the number of independent choices the oracle enumerates)."""
    gcs, pt = possibly_true(prog)
    if gcs is None:
        return 10 ** 6
    return sum(1 for k, _, body in gcs if k == "ad" and all((not pos) or a in pt for pos, a in body))


# ---------------------------------------------------------------- generator
class _Sig:
    """predicate table: name -> (arity, stratum)"""

    def __init__(self):
        self.preds = {}

    def add(self, name, arity, stratum):
        self.preds[name] = (arity, stratum)
        return name

    def upto(self, stratum, strict=False):
        return [n for n, (a, s) in self.preds.items() if (s < stratum if strict else s <= stratum)]


def _prob(rng):
    return rng.choice(PROBS)


def _ad_probs(rng, k):
    """k probability strings with sum <= 1 (exact decimal arithmetic)"""
    while True:
        ps = [rng.choice(PROBS) for _ in range(k)]
        tot = sum(Fraction(p) for p in ps)
        if tot < 1 or (tot == 1 and rng.random() < 0.5):
            return ps


def _gen_prop(rng):
    """Random propositional program: facts f*, derived atoms d*, AD atoms a*; every atom has a
    stratum; a clause may use atoms of its heads' minimal stratum positively and strictly lower ones negatively."""
    nf = rng.randint(1, 4)
    nd = rng.randint(1, 5)
    na = rng.choice([0, 0, 2, 2, 3])
    level = {}
    for i in range(nf):
        level["f%d" % i] = 0
    for i in range(nd):
        level["d%d" % i] = rng.choice([0, 1, 1, 1, 2, 2])
    for i in range(na):
        level["a%d" % i] = rng.choice([0, 1, 1, 2])
    names = list(level)
    stmts = []
    for i in range(nf):
        stmts.append(("ad", [(_prob(rng), atom("f%d" % i))], []))
        if rng.random() < 0.08:
            stmts.append(("ad", [(_prob(rng), atom("f%d" % i))], []))

    def body_for(lv, minlen=1, maxlen=3):
        pos = [n for n in names if level[n] <= lv]
        neg = [n for n in names if level[n] < lv]
        body = []
        for _ in range(rng.randint(minlen, maxlen)):
            if neg and rng.random() < 0.3:
                body.append((False, atom(rng.choice(neg))))
            elif pos:
                body.append((True, atom(rng.choice(pos))))
        return body

    for i in range(nd):
        d = "d%d" % i
        for _ in range(rng.randint(1, 3)):
            b = body_for(level[d])
            if b:
                stmts.append(("rule", atom(d), b))
            elif rng.random() < 0.5:
                stmts.append(("rule", atom(d), []))
    nads = 0 if na == 0 and rng.random() < 0.6 else rng.randint(1, 2)
    for _ in range(nads):
        k = rng.choice([2, 2, 3])
        cands = [n for n in names if not n.startswith("f")] or names
        heads = rng.sample(cands, min(k, len(cands)))
        if len(heads) < 2 and rng.random() < 0.5:
            continue
        lv = min(level[h] for h in heads)
        body = body_for(lv, 0, 3) if rng.random() < 0.75 else []
        ps = _ad_probs(rng, len(heads))
        stmts.append(("ad", [(p, atom(h)) for p, h in zip(ps, heads)], body))
    rng.shuffle(stmts)
    prog = Prog(stmts, {"mode": "prop"})
    _add_queries_evidence(rng, prog, names_hint=[atom(n) for n in names])
    return prog


def _random_args(rng, arity, nvars, consts, pvar=0.7):
    return tuple(V(rng.randrange(nvars)) if (nvars and rng.random() < pvar) else C(rng.choice(consts)) for _ in range(arity))


def _gen_fo(rng):
    consts = ["a", "b", "c", "d"][:rng.choice([2, 2, 3, 3, 4])]
    sig = _Sig()
    stmts = []
    # --- stratum 0: deterministic domain / edge facts
    sig.add("n", 1, 0)
    nodes = rng.sample(consts, rng.randint(1, len(consts)))
    for c in nodes:
        stmts.append(("rule", atom("n", C(c)), []))
    pairs = [(x, y) for x in consts for y in consts]
    have_e = rng.random() < 0.8
    if have_e:
        sig.add("e", 2, 0)
        for x, y in rng.sample(pairs, rng.randint(1, min(4, len(pairs)))):
            stmts.append(("rule", atom("e", C(x), C(y)), []))
    # --- stratum 0/1: probabilistic predicates
    kinds = ["pf", "pn", "pe", "adn", "adcol", "adbv", "p0"]
    rng.shuffle(kinds)
    for kind in kinds[:rng.randint(1, 4)]:
        if kind == "p0":
            sig.add("t", 0, 0)
            stmts.append(("ad", [(_prob(rng), atom("t"))], []))
        elif kind == "pf":
            sig.add("pf", 1, 0)
            for c in rng.sample(consts, rng.randint(1, min(3, len(consts)))):
                stmts.append(("ad", [(_prob(rng), atom("pf", C(c)))], []))
        elif kind == "pn":
            sig.add("pn", 1, 0)
            stmts.append(("ad", [(_prob(rng), atom("pn", V(0)))], [(True, atom("n", V(0)))]))
        elif kind == "pe" and have_e:
            sig.add("pe", 2, 0)
            stmts.append(("ad", [(_prob(rng), atom("pe", V(0), V(1)))], [(True, atom("e", V(0), V(1)))]))
        elif kind == "adn":
            sig.add("ca", 1, 0)
            sig.add("cb", 1, 0)
            ps = _ad_probs(rng, 2)
            stmts.append(("ad", [(ps[0], atom("ca", V(0))), (ps[1], atom("cb", V(0)))], [(True, atom("n", V(0)))]))
        elif kind == "adcol":
            sig.add("col", 2, 0)
            k = rng.choice([2, 3]) if len(consts) >= 3 else 2
            cs = rng.sample(consts, k)
            ps = _ad_probs(rng, k)
            stmts.append(("ad", [(p, atom("col", V(0), C(c))) for p, c in zip(ps, cs)], [(True, atom("n", V(0)))]))
        elif kind == "adbv" and have_e:
            # body variable that does not occur in the heads: one choice per (X,Y)
            sig.add("w", 0, 0)
            sig.add("z", 1, 0)
            ps = _ad_probs(rng, 2)
            stmts.append(("ad", [(ps[0], atom("w")), (ps[1], atom("z", V(0)))], [(True, atom("e", V(0), V(1)))]))
    # --- derived predicates
    templates = ["path", "mutual", "generic", "generic", "generic", "adrec", "neg", "repvar", "repvar"]
    rng.shuffle(templates)
    gid = 0
    forced_queries = []
    for tpl in templates[:rng.randint(1, 4)]:
        if tpl == "repvar":
            # one arity-2 predicate called with a repeated variable (pr(X,X)), with distinct variables (pr(X,Y)) and
            # partially ground (pr(a,Y)), in random textual order: the calls must not share a table entry
            if "lp" in sig.preds:
                continue
            if "pe" in sig.preds and rng.random() < 0.3:
                src = "pe"
            else:
                src = "pr"
                sig.add("pr", 2, 0)
                chosen = [(rng.choice(consts),) * 2]
                others = [(x, y) for x in consts for y in consts if x != y]
                chosen += rng.sample(others, rng.randint(1, min(3, len(others))))
                if rng.random() < 0.3:
                    d2 = rng.choice(consts)
                    if (d2, d2) not in chosen:
                        chosen.append((d2, d2))
                rng.shuffle(chosen)
                for x, y in chosen:
                    stmts.append(("ad", [(_prob(rng), atom("pr", C(x), C(y)))], []))
            c0 = rng.choice(consts)
            shapes = {
                "lp": ("rule", atom("lp"), [(True, atom(src, V(0), V(0)))]),
                "lk": ("rule", atom("lk"), [(True, atom(src, V(0), V(1)))]),
                "hf": ("rule", atom("hf", V(0)), [(True, atom(src, V(0), C(c0)) if rng.random() < 0.5 else atom(src, C(c0), V(0)))]),
                "bo": ("rule", atom("bo"), rng.choice([
                    [(True, atom(src, V(0), V(0))), (True, atom(src, V(1), V(2)))],
                    [(True, atom(src, V(1), V(2))), (True, atom(src, V(0), V(0)))]])),
                "lpx": ("rule", atom("lpx", V(0)), [(True, atom(src, V(0), V(0)))]),
            }
            names = ["lp", "lk"] + rng.sample(["hf", "bo", "lpx"], rng.randint(0, 3))
            rng.shuffle(names)
            for nm in names:
                sig.add(nm, len(shapes[nm][1][1]), 1)
                stmts.append(shapes[nm])
            qs = [atom(nm, *[V(i) for i in range(len(shapes[nm][1][1]))]) for nm in names]
            if rng.random() < 0.6:
                qs += rng.sample([atom(src, V(0), V(0)), atom(src, V(0), V(1)), atom(src, C(c0), V(0)), atom(src, V(0), C(c0))],
                                 rng.randint(1, 3))
            rng.shuffle(qs)
            forced_queries += qs[:rng.randint(2, 4)]
        elif tpl == "path" and have_e:
            edge = "pe" if "pe" in sig.preds and rng.random() < 0.7 else "e"
            sig.add("path", 2, 1)
            stmts.append(("rule", atom("path", V(0), V(1)), [(True, atom(edge, V(0), V(1)))]))
            shape = rng.choice(["right", "left", "double"])
            if shape == "right":
                b = [(True, atom(edge, V(0), V(2))), (True, atom("path", V(2), V(1)))]
            elif shape == "left":
                b = [(True, atom("path", V(0), V(2))), (True, atom(edge, V(2), V(1)))]
            else:
                b = [(True, atom("path", V(0), V(2))), (True, atom("path", V(2), V(1)))]
            stmts.append(("rule", atom("path", V(0), V(1)), b))
        elif tpl == "mutual" and have_e:
            edge = "pe" if "pe" in sig.preds and rng.random() < 0.5 else "e"
            base = rng.choice([p for p in sig.upto(0) if sig.preds[p][0] == 1])
            sig.add("r1", 1, 1)
            sig.add("r2", 1, 1)
            stmts.append(("rule", atom("r1", V(0)), [(True, atom(edge, V(0), V(1))), (True, atom("r2", V(1)))]))
            stmts.append(("rule", atom("r2", V(0)), [(True, atom(edge, V(0), V(1))), (True, atom("r1", V(1)))]))
            stmts.append(("rule", atom("r2", V(0)), [(True, atom(base, V(0)))]))
        elif tpl == "adrec":
            # AD whose body uses a derived (possibly recursive) predicate; heads may feed back into it
            s = 1
            sig.add("h1", 1, s)
            sig.add("h2", 1, s)
            src = rng.choice([p for p in sig.upto(s) if sig.preds[p][0] == 1])
            ps = _ad_probs(rng, 2)
            body = [(True, atom(src, V(0)))]
            if have_e and rng.random() < 0.5:
                body.append((True, atom("e", V(0), V(1))))
            stmts.append(("ad", [(ps[0], atom("h1", V(0))), (ps[1], atom("h2", V(0)))], body))
            if rng.random() < 0.5 and sig.preds.get(src, (0, 0))[1] == s and src not in ("h1", "h2"):
                stmts.append(("rule", atom(src, V(0)), [(True, atom("h1", V(0)))]))
        else:
            # generic rule(s) for a fresh predicate
            gid += 1
            name = "g%d" % gid
            ar = rng.choice([0, 1, 1, 2])
            st = rng.choice([1, 1, 2, 3])
            sig.add(name, ar, st)
            for _ in range(rng.randint(1, 2)):
                nv = rng.randint(max(1, ar), 3) if ar else rng.randint(0, 2)
                head = atom(name, *_random_args(rng, ar, nv, consts, 0.8))
                body = []
                for _ in range(rng.randint(1, 3)):
                    p = rng.choice(sig.upto(st))
                    body.append((True, atom(p, *_random_args(rng, sig.preds[p][0], nv, consts, 0.8))))
                bound = set(v for pos, a in body if pos for v in atom_vars(a))
                lower = sig.upto(st, strict=True)
                if lower and (tpl == "neg" or rng.random() < 0.4):
                    p = rng.choice(lower)
                    args = tuple(V(rng.choice(sorted(bound))) if (bound and rng.random() < 0.75) else C(rng.choice(consts))
                                 for _ in range(sig.preds[p][0]))
                    body.append((False, atom(p, *args)))
                for v in atom_vars(head):
                    if v not in bound:
                        body.insert(0, (True, atom("n", V(v))))
                        bound.add(v)
                stmts.append(("rule", head, body))
    stmts += [("query", q) for q in forced_queries]
    prog = Prog(_renumber_all(stmts), {"mode": "fo"})
    _add_queries_evidence(rng, prog, few=bool(forced_queries))
    return prog


def _renumber(s):
    """variables of one statement renumbered 0.. in order of first occurrence"""
    m = {}

    def ra(a):
        out = []
        for t in a[1]:
            if t[0] == "v":
                if t[1] not in m:
                    m[t[1]] = len(m)
                out.append(V(m[t[1]]))
            else:
                out.append(t)
        return (a[0], tuple(out))
    if s[0] == "rule":
        # body first would change naming only; keep head first
        h = ra(s[1])
        return ("rule", h, [(p, ra(a)) for p, a in s[2]])
    if s[0] == "ad":
        hs = [(p, ra(a)) for p, a in s[1]]
        return ("ad", hs, [(p, ra(a)) for p, a in s[2]])
    if s[0] == "query":
        return ("query", ra(s[1]))
    return ("evid", ra(s[1]), s[2])


def _renumber_all(stmts):
    return [_renumber(s) for s in stmts]


def _add_queries_evidence(rng, prog, names_hint=None, few=False):
    gcs, pt = possibly_true(prog)
    defined = {}
    for s in prog.clauses():
        for h in stmt_heads(s):
            defined[(h[0], len(h[1]))] = True
    consts = prog.constants() or ["a"]
    ptl = sorted(pt) if pt else []
    # prefer goals whose dependency cone is not trivial: atoms of predicates defined by a clause with a body
    with_body = set((h[0], len(h[1])) for s in prog.clauses() if stmt_body(s) for h in stmt_heads(s))
    ptd = [g for g in ptl if (g[0], len(g[1])) in with_body]

    def gatom_to_atom(g):
        return (g[0], tuple(C(c) for c in g[1]))

    def random_ground():
        p, ar = rng.choice(sorted(defined))
        return (p, tuple(C(rng.choice(consts)) for _ in range(ar)))
    stmts = list(prog.stmts)
    nq = rng.choice([0, 0, 1]) if few else rng.choice([1, 1, 2, 2, 3])
    for _ in range(nq):
        r = rng.random()
        if r < 0.55 and ptl:
            q = gatom_to_atom(rng.choice(ptd if (ptd and rng.random() < 0.8) else ptl))
        elif r < 0.8 and any(ar > 0 for _, ar in defined):
            p, ar = rng.choice(sorted(k for k in defined if k[1] > 0))
            args = []
            nv = 0
            for _ in range(ar):
                if rng.random() < 0.7:
                    # sometimes repeat a variable
                    if nv and rng.random() < 0.2:
                        args.append(V(rng.randrange(nv)))
                    else:
                        args.append(V(nv))
                        nv += 1
                else:
                    args.append(C(rng.choice(consts)))
            q = (p, tuple(args))
        else:
            q = random_ground()
        stmts.append(("query", q))
    ne = rng.choice([0, 0, 0, 1, 1, 2])
    for _ in range(ne):
        if ptl and rng.random() < 0.85:
            a = gatom_to_atom(rng.choice(ptd if (ptd and rng.random() < 0.6) else ptl))
        else:
            a = random_ground()
        stmts.append(("evid", a, rng.random() < 0.6))
    # every predicate that is called must be defined (ProbLog raises UnknownClause otherwise)
    for s in list(stmts):
        for a in stmt_atoms(s):
            k = (a[0], len(a[1]))
            if k not in defined:
                defined[k] = True
                stmts.append(("ad", [(_prob(rng), (a[0], tuple(C(rng.choice(consts)) for _ in a[1])))], []))
    prog.stmts = _renumber_all(stmts)
    prog._intern = None


def gen_program(rng, mode=None, max_choices=None):
    """One program of the C01 fragment, predicate-level stratified by construction.
    mode: "prop" | "fo" | None (mix).  Most programs have <= 10 live choices, a tail goes up to 14."""
    for _ in range(200):
        m = mode or ("prop" if rng.random() < 0.5 else "fo")
        prog = _gen_prop(rng) if m == "prop" else _gen_fo(rng)
        cap = max_choices if max_choices is not None else (14 if rng.random() < 0.12 else 10)
        n = estimate_choices(prog)
        if n <= cap and prog.queries():
            prog.meta["choices_estimate"] = n
            return prog
    raise RuntimeError("generator could not produce a small enough program")


# ---------------------------------------------------------------- negative-cycle stream (C02)
def gen_negcycle(rng):
    """A base program plus one or two negative-loop gadgets; roughly half of the loops are made
    relevant to a query or to evidence.  NOT stratified in general: to be classified by the oracle."""
    base = gen_program(rng, mode="prop" if rng.random() < 0.7 else "fo", max_choices=8)
    stmts = [s for s in base.stmts]
    ground_atoms = []
    for s in base.clauses():
        for a in stmt_atoms(s):
            if not atom_vars(a) and a not in ground_atoms:
                ground_atoms.append(a)

    def guard():
        if ground_atoms and rng.random() < 0.5:
            a = rng.choice(ground_atoms)
            return [(rng.random() < 0.8, a)]
        return []
    loops = []
    for g in range(rng.choice([1, 1, 2])):
        p, q, r = atom("lp%d" % g), atom("lq%d" % g), atom("lr%d" % g)
        shape = rng.choice(["even", "odd", "three", "viapos", "ad", "evenfact", "twovalued", "fo_win",
                            "possub", "possub", "possub_long", "possub_inner"])
        if shape == "even":
            stmts += [("rule", p, guard() + [(False, q)]), ("rule", q, guard() + [(False, p)])]
        elif shape == "odd":
            stmts += [("rule", p, guard() + [(False, p)])]
        elif shape == "three":
            stmts += [("rule", p, [(False, q)]), ("rule", q, guard() + [(False, r)]), ("rule", r, [(False, p)])]
        elif shape == "viapos":
            stmts += [("rule", p, guard() + [(True, q)]), ("rule", q, [(False, p)])]
        elif shape == "ad":
            ps = _ad_probs(rng, 2)
            stmts += [("ad", [(ps[0], p), (ps[1], r)], [(False, q)]), ("rule", q, guard() + [(False, p)])]
        elif shape == "evenfact":
            stmts += [("rule", p, [(False, q)]), ("rule", q, [(False, p)]), ("rule", p, [])]
        elif shape in ("possub", "possub_long", "possub_inner"):
            # a POSITIVE sub-cycle (q <-> r [<-> s]) sits below the negation; the negative loop back to p is only
            # closed from inside that sub-cycle:  p :- \\+q.  q :- r.  r :- q.  r :- p, b.
            s_ = atom("ls%d" % g)
            ga, gb = atom("la%d" % g), atom("lb%d" % g)
            stmts.append(("ad", [(_prob(rng), gb)], []))
            back = [(True, p), (True, gb)] if rng.random() < 0.7 else [(True, gb), (True, p)]
            if rng.random() < 0.25:
                back = [(True, p)]
            stmts.append(("rule", p, guard() + [(False, q)]))
            if rng.random() < 0.6:
                stmts.append(("ad", [(_prob(rng), ga)], []))
                stmts.append(("rule", p, [(True, ga)]))
            if shape == "possub":
                stmts += [("rule", q, [(True, r)]), ("rule", r, [(True, q)]), ("rule", r, back)]
            elif shape == "possub_long":
                stmts += [("rule", q, [(True, r)]), ("rule", r, [(True, s_)]), ("rule", s_, [(True, q)]),
                          ("rule", rng.choice([r, s_]), back)]
            else:
                # the loop back to p hangs off the first atom of the sub-cycle, which also has an exit
                stmts += [("rule", q, [(True, r)]), ("rule", r, [(True, q)]), ("rule", q, back)]
                if rng.random() < 0.5:
                    stmts.append(("rule", r, guard() or [(True, gb)]))
            # enter the loop from different atoms
            p = rng.choice([p, p, p, q, r])
        elif shape == "twovalued":
            # p depends negatively on itself only through a body that is false in every world
            x = rng.choice(ground_atoms) if ground_atoms else atom("lx%d" % g)
            if not ground_atoms:
                stmts.append(("ad", [(_prob(rng), x)], []))
            stmts += [("rule", p, [(True, x), (False, x), (False, p)]), ("rule", p, guard())]
        else:
            cs = base.constants() or ["a", "b"]
            if len(cs) < 2:
                cs = cs + ["b"]
            k = rng.randint(1, 3)
            for x, y in rng.sample([(x, y) for x in cs for y in cs], k):
                stmts.append(("rule", atom("mv%d" % g, C(x), C(y)), []))
            stmts.append(("rule", atom("win%d" % g, V(0)), [(True, atom("mv%d" % g, V(0), V(1))), (False, atom("win%d" % g, V(1)))]))
            p = atom("win%d" % g, C(rng.choice(cs)))
        loops.append(p)
        r0 = rng.random()
        if r0 < 0.35:
            stmts.append(("query", p))
        elif r0 < 0.5:
            stmts.append(("evid", p, rng.random() < 0.5))
        elif r0 < 0.7:
            qs = [s[1] for s in stmts if s[0] == "query" and not atom_vars(s[1])]
            if qs:
                stmts.append(("rule", rng.choice(qs), [(rng.random() < 0.7, p)]))
            else:
                stmts.append(("query", p))
        # else: the loop stays disconnected from every goal
    rng.shuffle(stmts)
    prog = Prog(_renumber_all(stmts), {"mode": "negcycle"})
    return prog


# ---------------------------------------------------------------- C07 permutations
def permute_statements(prog, rng):
    st = list(prog.stmts)
    rng.shuffle(st)
    return prog.with_stmts(st)


def _body_ok(body):
    """every negative literal comes after positive literals binding all of its variables"""
    bound = set()
    for pos, a in body:
        if pos:
            bound.update(atom_vars(a))
        elif not set(atom_vars(a)) <= bound:
            return False
    return True


def permute_bodies(prog, rng):
    """Random permutation of every rule body, negated literals kept after their binders.
    Returns (prog', number_of_bodies_actually_changed)."""
    out, moved = [], 0
    for s in prog.stmts:
        if s[0] in ("rule", "ad") and len(s[2]) > 1:
            body = list(s[2])
            for _ in range(20):
                cand = list(body)
                rng.shuffle(cand)
                if _body_ok(cand):
                    break
            else:
                cand = body
            if cand != body:
                moved += 1
            out.append((s[0], s[1], cand))
        else:
            out.append(s)
    return prog.with_stmts(out), moved


# ---------------------------------------------------------------- shrinking
def _valid(prog):
    """every called predicate is defined and there is at least one query"""
    defined = set()
    for s in prog.clauses():
        for h in stmt_heads(s):
            defined.add((h[0], len(h[1])))
    for s in prog.stmts:
        for a in stmt_atoms(s):
            if (a[0], len(a[1])) not in defined:
                return False
    for s in prog.clauses():
        # range restriction must survive literal removal
        bound = set(v for pos, a in stmt_body(s) if pos for v in atom_vars(a))
        for a in stmt_atoms(s):
            if not set(atom_vars(a)) <= bound:
                return False
    return bool(prog.queries())


def shrink(prog, bad, max_steps=400):
    """Greedy delta debugging: drop statements, then body literals, then AD heads, while `bad(prog)` stays true.
    `bad` must be deterministic.  Candidates that are not valid programs are skipped."""
    cur = prog
    steps = 0
    changed = True
    while changed and steps < max_steps:
        changed = False
        i = 0
        while i < len(cur.stmts) and steps < max_steps:
            cand = cur.with_stmts(cur.stmts[:i] + cur.stmts[i + 1:])
            steps += 1
            if _valid(cand) and bad(cand):
                cur = cand
                changed = True
            else:
                i += 1
        for i, s in enumerate(list(cur.stmts)):
            if s[0] in ("rule", "ad"):
                j = 0
                while j < len(cur.stmts[i][2]) and steps < max_steps:
                    s2 = cur.stmts[i]
                    ns = (s2[0], s2[1], s2[2][:j] + s2[2][j + 1:])
                    cand = cur.with_stmts(cur.stmts[:i] + [ns] + cur.stmts[i + 1:])
                    steps += 1
                    if _valid(cand) and bad(cand):
                        cur = cand
                        changed = True
                    else:
                        j += 1
            if s[0] == "ad":
                j = 0
                while len(cur.stmts[i][1]) > 1 and j < len(cur.stmts[i][1]) and steps < max_steps:
                    s2 = cur.stmts[i]
                    ns = (s2[0], s2[1][:j] + s2[1][j + 1:], s2[2])
                    cand = cur.with_stmts(cur.stmts[:i] + [ns] + cur.stmts[i + 1:])
                    steps += 1
                    if _valid(cand) and bad(cand):
                        cur = cand
                        changed = True
                    else:
                        j += 1
    return cur


# ---------------------------------------------------------------- parsing a tiny subset back (for hand-written witnesses)
def parse_simple(text):
    """Parse the propositional / function-free subset printed by Prog.text() (used for fixed witnesses)."""
    import re
    stmts = []

    def p_atom(s, vmap):
        s = s.strip()
        m = re.match(r"^([a-z][A-Za-z0-9_]*)(?:\((.*)\))?$", s)
        if not m:
            raise ValueError("atom: %r" % s)
        args = []
        if m.group(2) is not None:
            for t in m.group(2).split(","):
                t = t.strip()
                if t[0].isupper() or t[0] == "_":
                    if t not in vmap:
                        vmap[t] = len(vmap)
                    args.append(V(vmap[t]))
                else:
                    args.append(C(t))
        return (m.group(1), tuple(args))

    def split_top(s, sep):
        out, depth, cur = [], 0, ""
        for ch in s:
            if ch == "(":
                depth += 1
            elif ch == ")":
                depth -= 1
            if ch == sep and depth == 0:
                out.append(cur)
                cur = ""
            else:
                cur += ch
        if cur.strip():
            out.append(cur)
        return out

    def p_body(s, vmap):
        body = []
        for l in split_top(s, ","):
            l = l.strip()
            if l.startswith("\\+"):
                body.append((False, p_atom(l[2:], vmap)))
            else:
                body.append((True, p_atom(l, vmap)))
        return body
    for raw in re.split(r"\.(?=\s|$)", text.strip()):
        raw = raw.strip()
        if not raw or raw.startswith("%"):
            continue
        vmap = {}
        m = re.match(r"^query\((.*)\)$", raw)
        if m:
            stmts.append(("query", p_atom(m.group(1), vmap)))
            continue
        m = re.match(r"^evidence\((.*)\)$", raw)
        if m:
            parts = split_top(m.group(1), ",")
            if len(parts) == 2 and parts[1].strip() in ("true", "false"):
                stmts.append(("evid", p_atom(parts[0], vmap), parts[1].strip() == "true"))
            else:
                inner = m.group(1).strip()
                if inner.startswith("\\+"):
                    stmts.append(("evid", p_atom(inner[2:], vmap), False))
                else:
                    stmts.append(("evid", p_atom(inner, vmap), True))
            continue
        head, _, body = raw.partition(":-")
        b = p_body(body, vmap) if body.strip() else []
        if "::" in head:
            hs = []
            for h in split_top(head, ";"):
                p, _, a = h.partition("::")
                hs.append((p.strip(), p_atom(a, vmap)))
            stmts.append(("ad", hs, b))
        else:
            stmts.append(("rule", p_atom(head, vmap), b))
    return Prog(_renumber_all(stmts), {"mode": "parsed"})
