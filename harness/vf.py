"""Shared machinery for every property check.

One check run = (1) regenerate Gen/*.v from /repo, (2) build the Coq cone of
theories/<id>/Props.v and audit it (forbidden words, Print Assumptions),
(3) correspondence / validation against the implementation, (4) on breakage:
search for a concrete failing input, (5) known-findings filter, (6) evidence.

Everything here runs under /venv/bin/python with PYTHONPATH=/repo (see ../check).
"""
import fcntl
import hashlib
import json
import os
import random
import re
import shutil
import subprocess
import sys
import time

VERIF = os.path.dirname(os.path.dirname(os.path.abspath(__file__)))
REPO = os.environ.get("VERIF_REPO", "/repo")
COQ = os.path.join(VERIF, "coq")
THEORIES = os.path.join(COQ, "theories")
BUILD = os.path.join(VERIF, ".build")
EVIDENCE = os.path.join(VERIF, "evidence")
REPLAYS = os.path.join(VERIF, "replays")
CORPUS = os.path.join(VERIF, "corpus")
KNOWN = os.path.join(VERIF, "known_findings.json")
COQFLAGS = ["-Q", "theories", "PL"]

# Axioms that the Coq standard library itself declares and that this
# development is allowed to depend on (DESIGN.md 6.2).  Anything else printed
# by `Print Assumptions` fails the audit.
AXIOM_ALLOW = {
    "ClassicalDedekindReals.sig_not_dec",
    "ClassicalDedekindReals.sig_forall_dec",
    "FunctionalExtensionality.functional_extensionality_dep",
    "functional_extensionality_dep",
    "Classical_Prop.classic",
    "classic",
    "sig_not_dec",
    "sig_forall_dec",
    "Eqdep.Eq_rect_eq.eq_rect_eq",
    "Eq_rect_eq.eq_rect_eq",
    "eq_rect_eq",
    "JMeq.JMeq_eq",
    "JMeq_eq",
    "ProofIrrelevance.proof_irrelevance",
    "proof_irrelevance",
    "PropExtensionality.propositional_extensionality",
    "propositional_extensionality",
    "ClassicalEpsilon.constructive_indefinite_description",
    "constructive_indefinite_description",
    "IndefiniteDescription.constructive_indefinite_description",
    "ClassicalUniqueChoice.dependent_unique_choice",
}
# Primitive types/ops that Print Assumptions lists but that are not axioms of ours.
PRIMITIVE_PREFIXES = ("PrimInt63.", "PrimFloat.", "Uint63.", "Sint63.", "PArray.",
                      "FloatOps.", "Int63.", "Float64.")

FORBIDDEN = re.compile(
    r"\b(Admitted|admit|Axiom|Axioms|Parameter|Parameters|Conjecture|Conjectures|"
    r"Admit\s+Obligations|bypass_check|native_compute)\b|"
    r"Unset\s+Guard|Unset\s+Positivity|Unset\s+Universe|type-in-type|impredicative-set")


def sh(cmd, timeout=600, cwd=None, env=None, input=None):
    """Run a command, return (rc, stdout+stderr). Never raises on timeout."""
    try:
        p = subprocess.run(cmd, cwd=cwd, env=env, input=input, timeout=timeout,
                           stdout=subprocess.PIPE, stderr=subprocess.STDOUT,
                           text=True, shell=isinstance(cmd, str))
        return p.returncode, p.stdout
    except subprocess.TimeoutExpired as e:
        out = e.stdout or ""
        if isinstance(out, bytes):
            out = out.decode("utf8", "replace")
        return 124, out + "\n[timeout after %ss]" % timeout


def write_if_changed(path, text):
    os.makedirs(os.path.dirname(path), exist_ok=True)
    try:
        with open(path) as f:
            if f.read() == text:
                return False
    except OSError:
        pass
    tmp = path + ".tmp%d" % os.getpid()
    with open(tmp, "w") as f:
        f.write(text)
    os.replace(tmp, path)
    return True


class BuildLock:
    def __enter__(self):
        os.makedirs(BUILD, exist_ok=True)
        self.f = open(os.path.join(BUILD, "lock"), "w")
        fcntl.flock(self.f, fcntl.LOCK_EX)
        return self

    def __exit__(self, *a):
        fcntl.flock(self.f, fcntl.LOCK_UN)
        self.f.close()


def strip_coq_comments(src):
    out, depth, i = [], 0, 0
    while i < len(src):
        if src.startswith("(*", i):
            depth += 1
            i += 2
        elif src.startswith("*)", i) and depth:
            depth -= 1
            i += 2
        else:
            if not depth:
                out.append(src[i])
            i += 1
    return "".join(out)


def vars_outside_section(src):
    """Names the first Variable/Hypothesis/Context declared outside any Section."""
    stack = []
    for line in src.split("\n"):
        m = re.match(r"\s*(Section|Module\s+Type|Module)\s+([A-Za-z0-9_']+)", line)
        if m and ":=" not in line:
            stack.append("S" if m.group(1) == "Section" else "M")
            continue
        if re.match(r"\s*End\s+[A-Za-z0-9_']+\s*\.", line):
            if stack:
                stack.pop()
            continue
        m = re.match(r"\s*(?:Local\s+|Global\s+)?(Variable|Variables|Hypothesis|Hypotheses|Context)\b", line)
        if m and "S" not in stack:
            return line.strip()
    return None


def strip_coq_strings(src):
    return re.sub(r'"(?:[^"]|"")*"', '""', src)


WARN_ARGS = "-arg -w -arg -notation-overridden,-deprecated-hint-without-locality,-deprecated-instance-without-locality,-ambiguous-paths,-deprecated-syntactic-definition"


def refresh_makefile(files=None, tag=""):
    """(Re)generate a _CoqProject/Makefile pair.  With files=None: every .v under
    theories (used by setup.sh).  Otherwise exactly the given files (one cone),
    so that a half-written file of another property can never break this build."""
    if files is None:
        files = []
        for root, _, names in os.walk(THEORIES):
            for n in names:
                if n.endswith(".v") and not n.startswith("."):
                    files.append(os.path.relpath(os.path.join(root, n), COQ))
    files = sorted(files)
    proj = "_CoqProject" + tag
    mk = "Makefile" + tag
    text = "-Q theories PL\n" + WARN_ARGS + "\n" + "\n".join(files) + "\n"
    changed = write_if_changed(os.path.join(COQ, proj), text)
    if changed or not os.path.exists(os.path.join(COQ, mk)):
        rc, out = sh(["coq_makefile", "-f", proj, "-o", mk], cwd=COQ)
        if rc:
            raise RuntimeError("coq_makefile failed:\n" + out)
    return mk


def coq_cone(vfile):
    """All project .v files the given file depends on (including itself), in
    dependency order, via coqdep -sort."""
    rc, out = sh(["coqdep"] + COQFLAGS + ["-sort", vfile], cwd=COQ, timeout=120)
    if rc:
        raise RuntimeError("coqdep failed: " + out)
    res = []
    for tok in out.split():
        tok = tok.strip()
        if tok.endswith(".v"):
            res.append(os.path.normpath(tok))
    if os.path.normpath(vfile) not in res:
        res.append(os.path.normpath(vfile))
    return res


class Ctx:
    def __init__(self, prop, tier="quick", seed=0, level="proof"):
        self.prop = prop
        self.tier = tier
        self.seed = seed
        self.level = level
        self.rng = random.Random(seed * 1000003 + int(prop[1:]))
        self.t0 = time.time()
        self.cov = {"evaluations": 0, "distinct_nontrivial": 0, "rule": "", "samples": [],
                    "obligations": 0, "discharged": 0, "checker_cmd": "",
                    "trusted_base": [], "disagreements_checked": 0}
        self.assumptions = []
        self.violations = []      # (replay_path, concrete?)
        self.known_hits = []      # KNOWN-FINDING lines
        self.broken = []          # names of theorems / correspondences that no longer check
        self.notes = []
        self.hist = {}
        self._distinct = set()
        self.known = load_known()
        self.scratch = os.path.join(BUILD, "%s-%d" % (prop, os.getpid()))
        os.makedirs(self.scratch, exist_ok=True)

    # ---------------------------------------------------------------- misc
    def n(self, quick, thorough):
        return thorough if self.tier == "thorough" else quick

    def log(self, *a):
        print("[%s %6.1fs]" % (self.prop, time.time() - self.t0), *a, flush=True)

    def count(self, key, k=1):
        self.hist[key] = self.hist.get(key, 0) + k

    def case(self, canon, nontrivial=True, sample=None):
        """Record one explored case. `canon` is any hashable/JSON-able canonical
        form used to count distinct cases."""
        self.cov["evaluations"] += 1
        if nontrivial:
            h = hashlib.sha1(repr(canon).encode()).hexdigest()
            if h not in self._distinct:
                self._distinct.add(h)
                if sample is not None and len(self.cov["samples"]) < 8:
                    self.cov["samples"].append(sample)
        elif sample is not None and len(self.cov["samples"]) < 2:
            self.cov["samples"].append(sample)

    # ---------------------------------------------------------------- gen
    def generate(self, relpath, text):
        """Write a generated .v file under coq/theories (only when changed)."""
        return write_if_changed(os.path.join(THEORIES, relpath), text)

    # ---------------------------------------------------------------- coq
    def prove(self, props_rel, timeout=900, extra_allow=()):
        """Build the cone of coq/theories/<props_rel>, audit it, compile the
        Props file itself with coqc capturing Print Assumptions.  Returns True
        iff every obligation is discharged and the audit is clean."""
        vfile = os.path.join("theories", props_rel)
        src_path = os.path.join(COQ, vfile)
        with open(src_path) as f:
            src = strip_coq_comments(f.read())
        theorems = re.findall(r"^\s*(?:Theorem|Corollary)\s+([A-Za-z0-9_']+)", src, re.M)
        self.cov["obligations"] += len(theorems)
        ok = True
        with BuildLock():
            try:
                cone = coq_cone(vfile)
                mk = refresh_makefile(cone, "." + self.prop)
            except RuntimeError as e:
                self.broken.append("coqdep:%s" % props_rel)
                self.notes.append(str(e)[-2000:])
                return False
            # audit sources
            for f in cone:
                with open(os.path.join(COQ, f)) as fh:
                    body = strip_coq_strings(strip_coq_comments(fh.read()))
                m = FORBIDDEN.search(body)
                if m:
                    ok = False
                    self.broken.append("audit:%s contains forbidden '%s'" % (f, m.group(0)))
                v = vars_outside_section(body)
                if v:
                    ok = False
                    self.broken.append("audit:%s declares outside a section: %s" % (f, v))
            deps = [f[:-2] + ".vo" for f in cone if os.path.normpath(f) != os.path.normpath(vfile)]
            cmd = ["make", "-f", mk, "-j16"] + deps
            self.cov["checker_cmd"] = ("cd coq && coq_makefile -f _CoqProject -o Makefile && make -j16 %s && coqc %s %s"
                                       % (" ".join(d for d in deps[-3:]), " ".join(COQFLAGS), vfile))
            if deps:
                rc, out = sh(cmd, cwd=COQ, timeout=timeout)
                if rc:
                    ok = False
                    m = re.search(r'File "([^"]+)", line (\d+)', out)
                    where = "%s:%s" % (m.group(1), m.group(2)) if m else "?"
                    self.broken.append("proof-cone:%s (make rc=%d at %s)" % (props_rel, rc, where))
                    self.notes.append(out[-3000:])
                    return False
            rc, out = sh(["coqc"] + COQFLAGS + ["-w", "-notation-overridden,-deprecated-hint-without-locality", vfile],
                         cwd=COQ, timeout=timeout)
        if rc:
            ok = False
            m = re.search(r'line (\d+)', out)
            failed = "?"
            if m:
                line = int(m.group(1))
                with open(src_path) as f:
                    lines = f.read().split("\n")
                for i in range(min(line, len(lines)) - 1, -1, -1):
                    mm = re.match(r"\s*(?:Theorem|Corollary|Example|Lemma)\s+([A-Za-z0-9_']+)", lines[i])
                    if mm:
                        failed = mm.group(1)
                        break
            self.broken.append("theorem:%s in %s" % (failed, props_rel))
            self.notes.append(out[-3000:])
            return False
        # parse Print Assumptions blocks
        blocks = re.split(r"(?m)^(?=Closed under the global context|Axioms:)", out)
        nblocks = 0
        axioms = set()
        for b in blocks:
            if b.startswith("Closed under the global context"):
                nblocks += 1
            elif b.startswith("Axioms:"):
                nblocks += 1
                for mm in re.finditer(r"(?m)^([A-Za-z_][A-Za-z0-9_.']*)\s*:", b[len("Axioms:"):]):
                    axioms.add(mm.group(1))
        if nblocks < len(theorems):
            ok = False
            self.broken.append("audit:%s has %d theorems but %d Print Assumptions" % (props_rel, len(theorems), nblocks))
        for a in sorted(axioms):
            if a in AXIOM_ALLOW or a in extra_allow or a.startswith(PRIMITIVE_PREFIXES):
                continue
            ok = False
            self.broken.append("audit:axiom %s not in allow-list (%s)" % (a, props_rel))
        tb = self.cov["trusted_base"]
        for a in sorted(axioms):
            s = "axiom (Coq stdlib): " + a
            if s not in tb:
                tb.append(s)
        if not axioms:
            s = "%s: all theorems closed under the global context" % props_rel
            if s not in tb:
                tb.append(s)
        if ok:
            self.cov["discharged"] += len(theorems)
        self.cov.setdefault("theorems", []).extend(theorems)
        return ok

    def coqchk(self, lib, timeout=1200):
        """Thorough tier: independent re-check of a compiled library."""
        with BuildLock():
            rc, out = sh(["coqchk", "-silent", "-o"] + COQFLAGS + [lib], cwd=COQ, timeout=timeout)
        self.cov["coqchk"] = {"lib": lib, "rc": rc, "tail": out[-1500:]}
        if rc:
            self.broken.append("coqchk:%s rc=%d" % (lib, rc))
        return rc == 0

    def coq_run(self, text, name="cases", timeout=600):
        """Compile a scratch .v (may Require PL.*) and return (rc, stdout)."""
        path = os.path.join(self.scratch, name + ".v")
        with open(path, "w") as f:
            f.write(text)
        rc, out = sh(["coqc", "-Q", os.path.join(COQ, "theories"), "PL", "-w", "none", path],
                     cwd=self.scratch, timeout=timeout)
        return rc, out

    def coq_failing(self, header, cases, name="cases", shard=400, timeout=900, jobs=8):
        """`cases` are Coq terms of type bool (closed under `header`).  Returns
        the sorted list of indices whose term does not vm_compute to true,
        or raises RuntimeError when a shard does not compile."""
        from concurrent.futures import ThreadPoolExecutor
        shards = [(i, cases[i:i + shard]) for i in range(0, len(cases), shard)]

        def one(arg):
            k, (start, cs) = arg
            body = [header, "Definition cases : list bool := ["]
            body.append(";\n".join("(%s)" % c for c in cs))
            body.append("].")
            body.append("Fixpoint failing (i : nat) (l : list bool) : list nat := match l with nil => nil | cons b t => if b then failing (S i) t else cons i (failing (S i) t) end.")
            body.append("Definition out := failing 0 cases.")
            body.append("Eval vm_compute in out.")
            rc, out = self.coq_run("\n".join(body), "%s_%d" % (name, k), timeout)
            if rc:
                raise RuntimeError("coqc failed on shard %d of %s:\n%s" % (k, name, out[-3000:]))
            m = re.search(r"=\s*(\[[^\]]*\]|nil)", out.replace("\n", " "))
            if not m:
                raise RuntimeError("cannot parse coqc output:\n" + out[-2000:])
            txt = m.group(1)
            idx = [int(x) for x in re.findall(r"\d+", txt)]
            return [start + i for i in idx]

        res = []
        with ThreadPoolExecutor(max_workers=jobs) as ex:
            for r in ex.map(one, enumerate(shards)):
                res.extend(r)
        return sorted(res)

    def ocaml_oracle(self, name, extract_v, driver_ml, extracted_ml="oracle.ml"):
        """Extract (extract_v is the text of a .v that writes `extracted_ml` in
        the cwd) and build a native driver. Returns exe path. Cached by hash."""
        h = hashlib.sha1((extract_v + driver_ml).encode()).hexdigest()[:12]
        d = os.path.join(BUILD, "ocaml-%s-%s" % (name, h))
        exe = os.path.join(d, "oracle.exe")
        # the cache key must also cover the .vo files the extraction reads
        stamp = os.path.join(d, "stamp")
        vo_sig = self._vo_signature(extract_v)
        if os.path.exists(exe) and os.path.exists(stamp) and open(stamp).read() == vo_sig:
            return exe
        shutil.rmtree(d, ignore_errors=True)
        os.makedirs(d)
        with open(os.path.join(d, "Extract.v"), "w") as f:
            f.write(extract_v)
        with open(os.path.join(d, "driver.ml"), "w") as f:
            f.write(driver_ml)
        rc, out = sh(["coqc", "-Q", os.path.join(COQ, "theories"), "PL", "-w", "none", "Extract.v"], cwd=d, timeout=600)
        if rc:
            raise RuntimeError("extraction failed:\n" + out[-3000:])
        mli = extracted_ml[:-3] + ".mli"
        srcs = ([mli] if os.path.exists(os.path.join(d, mli)) else []) + [extracted_ml, "driver.ml"]
        rc, out = sh(["ocamlfind", "ocamlopt", "-O3" if False else "-unsafe", "-w", "-a", "-package", "str", "-linkpkg"] + srcs + ["-o", "oracle.exe"], cwd=d, timeout=600)
        if rc:
            raise RuntimeError("ocaml build failed:\n" + out[-3000:])
        with open(stamp, "w") as f:
            f.write(vo_sig)
        s = "extraction: ExtrOcamlBasic only + driver %s (unverified glue)" % name
        if s not in self.cov["trusted_base"]:
            self.cov["trusted_base"].append(s)
        return exe

    def _vo_signature(self, extract_v):
        """Hash of every .vo under each theories/<Dir> that the extraction text mentions
        (`PL.Dir.File`, `From PL.Dir Require ...`): a changed model rebuilds the oracle."""
        sig = hashlib.sha1()
        dirs = sorted(set(re.findall(r"PL\.([A-Za-z0-9_]+)", extract_v)))
        for d in dirs:
            root = os.path.join(THEORIES, d)
            if not os.path.isdir(root):
                continue
            for n in sorted(os.listdir(root)):
                if n.endswith(".vo"):
                    try:
                        with open(os.path.join(root, n), "rb") as f:
                            sig.update(n.encode() + hashlib.sha1(f.read()).digest())
                    except OSError:
                        sig.update(b"missing")
        return sig.hexdigest()

    def oracle(self, exe, lines, timeout=900):
        """Feed request lines to an extracted oracle, one answer line each."""
        inp = "\n".join(lines) + "\n"
        p = subprocess.run([exe], input=inp, stdout=subprocess.PIPE, stderr=subprocess.PIPE,
                           text=True, timeout=timeout)
        if p.returncode:
            raise RuntimeError("oracle crashed rc=%d: %s" % (p.returncode, p.stderr[-2000:]))
        out = p.stdout.split("\n")
        if out and out[-1] == "":
            out.pop()
        if len(out) != len(lines):
            raise RuntimeError("oracle returned %d lines for %d requests" % (len(out), len(lines)))
        return out

    # ---------------------------------------------------------------- results
    def violation(self, what, replay, klass=None, concrete=True):
        """Report one violation.  `klass` is a narrow input/symptom class name;
        when known_findings.json lists (property, class) with status 'known'
        the run prints KNOWN-FINDING instead and does not fail."""
        self.cov["disagreements_checked"] += 1
        if klass is not None and concrete:
            for k in self.known:
                if k.get("property") == self.prop and k.get("class") == klass and k.get("status") == "known":
                    line = "KNOWN-FINDING: property=%s %s [%s]" % (self.prop, k.get("what", what), klass)
                    if line not in self.known_hits:
                        self.known_hits.append(line)
                        print(line, flush=True)
                    return False
        os.makedirs(REPLAYS, exist_ok=True)
        body = {"property": self.prop, "what": what, "class": klass, "concrete_failing_input": bool(concrete),
                "seed": self.seed, "tier": self.tier, "replay": replay,
                "command": "./check %s --tier %s (VERIF_SEED=%d)" % (self.prop, self.tier, self.seed)}
        h = hashlib.sha1(json.dumps(body, sort_keys=True, default=str).encode()).hexdigest()[:10]
        path = os.path.join(REPLAYS, "%s-%s.json" % (self.prop, h))
        with open(path, "w") as f:
            json.dump(body, f, indent=1, default=str)
        self._vclass = getattr(self, "_vclass", {})
        self._vclass[klass] = self._vclass.get(klass, 0) + 1
        if self._vclass[klass] <= 3 and len(self.violations) < 12:
            print("VIOLATION property=%s replay=%s%s" % (self.prop, path, "" if concrete else " no-failing-input-found"), flush=True)
            print("   -> " + what[:400], flush=True)
        self.violations.append((path, concrete))
        return True

    def finish(self):
        # a broken obligation / correspondence without any concrete violation
        concrete = [v for v in self.violations if v[1]]
        if self.broken and not concrete and not any(not v[1] for v in self.violations):
            self.violation("proof obligation or correspondence no longer checks: " + "; ".join(self.broken),
                           {"broken": self.broken, "notes": self.notes}, concrete=False)
        elif self.broken:
            self.notes.append("broken: " + "; ".join(self.broken))
        cov = dict(self.cov)
        cov["distinct_nontrivial"] = len(self._distinct)
        cov["histogram"] = self.hist
        cov["broken"] = self.broken
        cov["known_findings_reproduced"] = self.known_hits
        if self.notes:
            cov["notes"] = [n[-1500:] for n in self.notes][:10]
        if cov["obligations"] == 0:
            # nothing was attempted (e.g. the check died before the proof step): do not
            # present empty proof keys; the generic counts then have to carry the file
            for k in ("obligations", "discharged"):
                cov.pop(k)
        if self.level == "translation_validation":
            cov.setdefault("programs", cov["evaluations"])
        if self.level == "other":
            cov.setdefault("explanation", cov.get("rule", ""))
        ev = {"property_id": self.prop, "tier": self.tier, "seed": self.seed, "level": self.level,
              "coverage": cov, "assumptions": self.assumptions,
              "wall_s": round(time.time() - self.t0, 2), "violations": len(self.violations)}
        os.makedirs(EVIDENCE, exist_ok=True)
        with open(os.path.join(EVIDENCE, self.prop + ".json"), "w") as f:
            json.dump(ev, f, indent=1, default=str)
        shutil.rmtree(self.scratch, ignore_errors=True)
        self.log("done: evaluations=%d distinct=%d obligations=%d/%d violations=%d known=%d"
                 % (cov["evaluations"], cov["distinct_nontrivial"], cov.get("discharged", 0), cov.get("obligations", 0),
                    len(self.violations), len(self.known_hits)))
        return 1 if self.violations else 0


def load_known():
    try:
        with open(KNOWN) as f:
            return json.load(f).get("findings", [])
    except OSError:
        return []


# ------------------------------------------------------------------ coq literal helpers
def coq_Z(n):
    return "(%d)%%Z" % n


def coq_N(n):
    assert n >= 0
    return "%d%%N" % n


def coq_nat(n):
    assert 0 <= n < 5000
    return "%d%%nat" % n


def coq_bool(b):
    return "true" if b else "false"


def coq_list(xs):
    return "[" + "; ".join(xs) + "]"


def coq_option(x):
    return "None" if x is None else "(Some %s)" % x


def coq_string(s):
    return '"' + s.replace('"', '""') + '"'
