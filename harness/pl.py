"""Driving the real ProbLog implementation (imported from $VERIF_REPO, default /repo).

All helpers map outcomes to a small canonical form:
  ("ok", {answer_string: probability})   or   ("err", ERRCLASS)
ERRCLASS in: NegativeCycle, GroundingError, InconsistentEvidence, InvalidValue,
ParseError, ProbLogError (other), Timeout, INTERNAL:<PythonExceptionName>.
"""
import multiprocessing
import os
import signal
import sys


def err_class(e):
    from problog.errors import ProbLogError, GroundingError, InconsistentEvidenceError, InvalidValue, ParseError
    name = type(e).__name__
    if isinstance(e, _Timeout):
        return "Timeout"
    try:
        from problog.engine_stack import NegativeCycle
        if isinstance(e, NegativeCycle):
            return "NegativeCycle"
    except ImportError:
        pass
    if isinstance(e, InconsistentEvidenceError):
        return "InconsistentEvidence"
    if isinstance(e, InvalidValue):
        return "InvalidValue"
    if isinstance(e, ParseError):
        return "ParseError"
    if isinstance(e, GroundingError):
        return "GroundingError"
    if isinstance(e, ProbLogError):
        return "ProbLogError:" + name
    return "INTERNAL:" + name


class _Timeout(Exception):
    pass


def _alarm(signum, frame):
    raise _Timeout()


def with_timeout(fn, seconds, *a, **kw):
    old = signal.signal(signal.SIGALRM, _alarm)
    signal.alarm(int(seconds))
    try:
        return fn(*a, **kw)
    finally:
        signal.alarm(0)
        signal.signal(signal.SIGALRM, old)


def evaluate(src, backend=None, semiring=None, timeout=20, formula_kwargs=None, evaluate_kwargs=None, engine_kwargs=None):
    """Full default pipeline on program text: returns ("ok", {str(query): float}) or ("err", class)."""
    def go():
        from problog import get_evaluatable
        from problog.program import PrologString
        from problog.engine import DefaultEngine
        from problog.formula import LogicFormula
        eng = DefaultEngine(**(engine_kwargs or {}))
        db = eng.prepare(PrologString(src))
        lf = LogicFormula.create_from(db, engine=eng, **(formula_kwargs or {}))
        kc = get_evaluatable(backend).create_from(lf)
        res = kc.evaluate(semiring=semiring, **(evaluate_kwargs or {}))
        return {str(k): v for k, v in res.items()}
    try:
        return ("ok", with_timeout(go, timeout))
    except BaseException as e:  # noqa
        if isinstance(e, (KeyboardInterrupt, SystemExit)):
            raise
        return ("err", err_class(e))


def _worker(args):
    fn, item = args
    sys.setrecursionlimit(20000)
    return fn(item)


def pmap(fn, items, jobs=14, chunksize=4):
    """Parallel map with a process pool (fn must be a module-level function)."""
    items = list(items)
    if len(items) < 8 or jobs <= 1:
        return [fn(x) for x in items]
    ctx = multiprocessing.get_context("fork")
    with ctx.Pool(min(jobs, os.cpu_count() or 1)) as pool:
        return pool.map(_worker, [(fn, x) for x in items], chunksize)


def same_result(a, b, tol=1e-9):
    """Canonical comparison of two evaluate() outcomes (DESIGN 1.3a): an answer
    with probability 0 is the same observation as an unreported answer."""
    if a[0] != b[0]:
        return False
    if a[0] == "err":
        return a[1] == b[1]
    keys = set(a[1]) | set(b[1])
    for k in keys:
        if abs(a[1].get(k, 0.0) - b[1].get(k, 0.0)) > tol:
            return False
    return True
