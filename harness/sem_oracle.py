"""The Coq-defined distribution semantics (coq/theories/Sem) as an extracted,
exact-rational oracle.

API (see notes/Sem.md):
    exe = build(ctx)                                   # extraction + ocamlopt, cached by vf.Ctx.ocaml_oracle
    oracle_eval(ctx, programs, mode="fast", jobs=14)   # -> list of outcomes, one per program
        mode "fast"  : SemFast.fast_answers (pruned, cone-restricted, one model per world)
        mode "spec"  : Sem.answers          (the specification itself; exponential in ALL ground AD instances)
        mode "class" : SemFast.fast_gclassify (C02 class; graph test on the full ground program, worlds on the pruned cone)
        mode "classspec" : Sem.gclassify    (the specification of the class; enumerates every ground AD instance)
        mode "nch"   : number of independent choices (fast, spec)
    outcome:
        ("ok", {query_str: Fraction})       every ground instance of every query (probability 0 included)
        ("err", "InconsistentEvidence")     P(evidence) = 0
        ("err", "NotTwoValued")             some positive-weight world has an undefined atom
        ("err", "OutOfFuel" | "IllFormed" | other)   should never happen; callers treat as broken machinery
        ("class", "must_answer" | "must_reject" | "either" | "fuel")
        ("nch", (fast, spec))
`programs` are gen_program.Prog objects (anything with .sexp() and .decode_atom()).
"""
import os
import subprocess
from fractions import Fraction

EXTRACT_V = """From Coq Require Import NArith QArith List Bool.
Require Import PL.Sem.Program PL.Sem.Sem PL.Sem.SemFast.
Require Extraction.
Require ExtrOcamlBasic.
Extraction Language OCaml.
Set Extraction Output Directory ".".
Extraction "oracle.ml" wf_program fast_answers answers gclassify fast_gclassify ground fast_nchoices spec_nchoices.
"""

DRIVER_ML = r"""
open Oracle
let rec pos_of_int n = if n <= 1 then XH else if n land 1 = 1 then XI (pos_of_int (n lsr 1)) else XO (pos_of_int (n lsr 1))
let n_of_int n = if n = 0 then N0 else Npos (pos_of_int n)
let z_of_int n = if n = 0 then Z0 else if n > 0 then Zpos (pos_of_int n) else Zneg (pos_of_int (-n))
let rec nat_of_int n = if n <= 0 then O else S (nat_of_int (n-1))
let rec int_of_nat = function O -> 0 | S n -> 1 + int_of_nat n
let rec int_of_pos = function XH -> 1 | XO p -> 2 * int_of_pos p | XI p -> 2 * int_of_pos p + 1
let int_of_n = function N0 -> 0 | Npos p -> int_of_pos p
let rec bits p acc = match p with XH -> 1::acc | XO p' -> bits p' (0::acc) | XI p' -> bits p' (1::acc)
let dec_of_pos p =
  let base = 1_000_000_000 in
  let mul2add d b =
    let rec go d carry = match d with
      | [] -> if carry > 0 then [carry] else []
      | x::r -> let v = x*2+carry in (v mod base) :: go r (v / base) in
    go d b in
  let d = List.fold_left mul2add [] (bits p []) in
  match List.rev d with
  | [] -> "0"
  | hd::tl -> String.concat "" (string_of_int hd :: List.map (Printf.sprintf "%09d") tl)
let dec_of_z = function Z0 -> "0" | Zpos p -> dec_of_pos p | Zneg p -> "-" ^ dec_of_pos p

type sx = A of string | L of sx list
let tokenize s =
  let n = String.length s in
  let toks = ref [] in
  let i = ref 0 in
  while !i < n do
    let c = s.[!i] in
    if c = '(' || c = ')' then (toks := String.make 1 c :: !toks; incr i)
    else if c = ' ' || c = '\t' || c = '\r' then incr i
    else begin
      let j = ref !i in
      while !j < n && (let d = s.[!j] in d <> '(' && d <> ')' && d <> ' ' && d <> '\t' && d <> '\r') do incr j done;
      toks := String.sub s !i (!j - !i) :: !toks; i := !j
    end
  done;
  List.rev !toks
let rec parse_one = function
  | "(" :: rest -> let (items, rest') = parse_list rest [] in (L items, rest')
  | ")" :: _ -> failwith "unexpected )"
  | t :: rest -> (A t, rest)
  | [] -> failwith "eof"
and parse_list toks acc = match toks with
  | ")" :: rest -> (List.rev acc, rest)
  | [] -> failwith "missing )"
  | _ -> let (x, rest) = parse_one toks in parse_list rest (x :: acc)

let term_of = function
  | A s -> let k = int_of_string (String.sub s 1 (String.length s - 1)) in
           if s.[0] = 'v' then TV (nat_of_int k) else if s.[0] = 'c' then TC (n_of_int k) else failwith "term"
  | _ -> failwith "term"
let atom_of = function
  | L (A p :: ts) -> (n_of_int (int_of_string p), List.map term_of ts)
  | _ -> failwith "atom"
let lit_of = function
  | L [A "p"; a] -> Pos (atom_of a)
  | L [A "n"; a] -> Neg (atom_of a)
  | _ -> failwith "lit"
let head_of = function
  | L [A n; A d; a] -> ({ qnum = z_of_int (int_of_string n); qden = pos_of_int (int_of_string d) }, atom_of a)
  | _ -> failwith "head"
let stmt_of = function
  | L [A "r"; h; L b] -> SClause (Rule (atom_of h, List.map lit_of b))
  | L [A "ad"; L hs; L b] -> SClause (AD (List.map head_of hs, List.map lit_of b))
  | L [A "q"; a] -> SQuery (atom_of a)
  | L [A "e"; a; A v] -> SEvid (atom_of a, v = "1")
  | _ -> failwith "stmt"
let prog_of = function L ss -> List.map stmt_of ss | _ -> failwith "prog"

let show_atom (p, args) =
  string_of_int (int_of_n p) ^ ":" ^ String.concat "," (List.map (fun c -> string_of_int (int_of_n c)) args)
let show_res = function
  | Ok q -> dec_of_z q.qnum ^ "/" ^ dec_of_pos q.qden
  | Inconsistent -> "INCONSISTENT"
  | NotTwoValued -> "NOT2V"
  | OutOfFuel -> "FUEL"
let show_answers l = "ok " ^ String.concat ";" (List.map (fun (a, r) -> show_atom a ^ "=" ^ show_res r) l)

let handle line =
  let toks = tokenize line in
  match toks with
  | mode :: rest ->
    let (sx, _) = parse_one rest in
    let p = prog_of sx in
    if not (wf_program p) then "err IllFormed"
    else begin match mode with
      | "fast" -> (match fast_answers p with Some l -> show_answers l | None -> "err OutOfFuel")
      | "spec" -> show_answers (answers p)
      | "class" -> (match fast_gclassify p with
                    | MustAnswer -> "class must_answer" | MustReject -> "class must_reject"
                    | Either -> "class either" | ClassFuel -> "class fuel")
      | "classspec" -> (match gclassify (ground p) with
                    | MustAnswer -> "class must_answer" | MustReject -> "class must_reject"
                    | Either -> "class either" | ClassFuel -> "class fuel")
      | "nch" -> (match fast_nchoices p with
                  | Some n -> Printf.sprintf "nch %d %d" (int_of_nat n) (int_of_nat (spec_nchoices p))
                  | None -> "err OutOfFuel")
      | _ -> "err BadMode"
    end
  | [] -> "err Empty"

let () =
  try
    while true do
      let line = input_line stdin in
      let out = try handle line with e -> "err Exn:" ^ Printexc.to_string e in
      print_string out; print_newline ()
    done
  with End_of_file -> ()
"""


def build(ctx):
    """Extract PL.Sem.{Program,Sem,SemFast} and build the native oracle (cached)."""
    return ctx.ocaml_oracle("sem", EXTRACT_V, DRIVER_ML)


def _parse(line, prog):
    if line.startswith("ok"):
        body = line[3:].strip()
        res = {}
        status = None
        if body:
            for item in body.split(";"):
                a, r = item.split("=")
                if r == "INCONSISTENT":
                    status = "InconsistentEvidence"
                elif r == "NOT2V":
                    status = "NotTwoValued"
                elif r == "FUEL":
                    status = "OutOfFuel"
                else:
                    n, d = r.split("/")
                    res[prog.decode_atom(a)] = Fraction(int(n), int(d))
        if status:
            return ("err", status)
        return ("ok", res)
    if line.startswith("class "):
        return ("class", line.split()[1])
    if line.startswith("nch "):
        _, a, b = line.split()
        return ("nch", (int(a), int(b)))
    if line.startswith("err "):
        return ("err", line[4:].strip())
    return ("err", "Unparsable:" + line[:80])


def _run_chunk(args):
    exe, lines = args
    p = subprocess.run([exe], input="\n".join(lines) + "\n", stdout=subprocess.PIPE, stderr=subprocess.PIPE,
                       text=True, timeout=3000)
    if p.returncode:
        raise RuntimeError("sem oracle crashed rc=%d: %s" % (p.returncode, p.stderr[-1000:]))
    out = p.stdout.split("\n")
    if out and out[-1] == "":
        out.pop()
    if len(out) != len(lines):
        raise RuntimeError("sem oracle returned %d lines for %d requests" % (len(out), len(lines)))
    return out


def oracle_eval(ctx, programs, mode="fast", jobs=14):
    """Evaluate every program with the extracted Coq semantics. See module docstring."""
    exe = build(ctx)
    programs = list(programs)
    lines = [mode + " " + p.sexp() for p in programs]
    if not lines:
        return []
    jobs = max(1, min(jobs, os.cpu_count() or 1, (len(lines) + 3) // 4))
    # round-robin so that expensive programs spread over the workers
    chunks = [[] for _ in range(jobs)]
    for i, ln in enumerate(lines):
        chunks[i % jobs].append((i, ln))
    from concurrent.futures import ThreadPoolExecutor
    outs = [None] * len(lines)
    with ThreadPoolExecutor(max_workers=jobs) as ex:
        for ch, res in zip(chunks, ex.map(_run_chunk, [(exe, [ln for _, ln in ch]) for ch in chunks])):
            for (i, _), r in zip(ch, res):
                outs[i] = r
    return [_parse(o, p) for o, p in zip(outs, programs)]


def same(impl, ref, tol=1e-9):
    """Compare an implementation outcome (pl.evaluate style: ("ok", {str: float}) | ("err", cls)) with an
    oracle outcome. Probability 0 == unreported. Returns None when they agree, else a short description."""
    if ref[0] == "err":
        if impl[0] == "err" and impl[1] == ref[1]:
            return None
        return "oracle says %s, implementation %s" % (ref[1], impl if impl[0] == "err" else "answered %r" % (impl[1],))
    if impl[0] == "err":
        return "implementation raised %s, oracle answers %s" % (impl[1], {k: str(v) for k, v in ref[1].items()})
    bad = []
    for k in sorted(set(impl[1]) | set(ref[1])):
        a = impl[1].get(k, 0.0)
        b = ref[1].get(k, Fraction(0))
        if abs(a - float(b)) > tol:
            bad.append("%s: implementation %r, semantics %s (=%.12g)" % (k, a, b, float(b)))
    return "; ".join(bad) if bad else None
