"""CLI: ./check Cxx [--tier quick|thorough] [--replay path]"""
import argparse
import importlib
import os
import sys
import traceback

sys.path.insert(0, os.path.dirname(os.path.abspath(__file__)))
import vf


def main():
    ap = argparse.ArgumentParser()
    ap.add_argument("prop")
    ap.add_argument("--tier", default=os.environ.get("VERIF_TIER", "quick"), choices=["quick", "thorough"])
    ap.add_argument("--replay", default=None)
    ap.add_argument("--seed", type=int, default=int(os.environ.get("VERIF_SEED", "0") or 0))
    args = ap.parse_args()
    mod = importlib.import_module("props." + args.prop)
    level = getattr(mod, "META", {}).get("level", "proof")
    ctx = vf.Ctx(args.prop, args.tier, args.seed, level)
    ctx.replay = None
    if args.replay:
        import json
        with open(args.replay) as f:
            ctx.replay = json.load(f)
    try:
        mod.run(ctx)
    except Exception:
        tb = traceback.format_exc()
        ctx.notes.append(tb)
        print(tb, file=sys.stderr)
        ctx.broken.append("harness:exception in check (see notes)")
    sys.exit(ctx.finish())


if __name__ == "__main__":
    main()
