"""Run every property's translator (props.Cxx.generate) so that all Gen*.v exist before a full build."""
import importlib
import os
import sys
import traceback

sys.path.insert(0, os.path.dirname(os.path.abspath(__file__)))
import vf

rc = 0
for name in sorted(os.listdir(os.path.join(os.path.dirname(os.path.abspath(__file__)), "props"))):
    if not (name.startswith("C") and name.endswith(".py")):
        continue
    mod = importlib.import_module("props." + name[:-3])
    gen = getattr(mod, "generate", None)
    if gen is None:
        continue
    ctx = vf.Ctx(name[:-3], "quick", 0)
    try:
        gen(ctx)
        print("generated models for", name[:-3])
    except Exception:
        traceback.print_exc()
        print("WARNING: translator for %s failed (its check will report the broken obligation)" % name[:-3])
    import shutil
    shutil.rmtree(ctx.scratch, ignore_errors=True)
sys.exit(rc)
